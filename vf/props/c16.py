"""C16 threshold matching of the strong coupling follows the decoupling relations.

Decomposition (each part is a complete enumeration):
  table  the coefficient tables compute_matching_coeffs_up/down for both schemes and nl = 3,4,5:
         constants against the published values, logarithmic coefficients against the ones *derived
         from the RGEs* (independent beta/gamma tables, eko's own constants as input, so that a wrong
         constant and a wrong logarithm have different signatures), structural zeros (=> unit ratio
         and continuity at LO / at NLO for mu = m), down table against a truncated-series inversion
         written independently.
  jump   through the real Couplings.a: the values just below and just above every matching scale, in
         both directions, for every order/scheme/ratio assignment, must be related by the verified
         table applied with an independently written loop (right table, right nl, right logarithm,
         right truncation, up vs down); a_em must not jump.  Just behind the wall (squared scale 1e-10,
         1e-7 and 3e-4 away: only a segment of zero length up to rounding may be skipped) the coupling must
         have moved by beta(a) dt (independent beta table): a frozen coupling is 100 % off.
  path   Couplings.a(mu2, nf_to) for every reference patch / target scale / requested nf equals an
         independent walk along the walls (path from vf.ref.paths, one fresh single-patch object per
         segment, matching from the table).
  kinv   renormalisation-group invariance end to end: with the mass numbers held fixed (what the runner
         hands over: the pole mass, or the scale-invariant mass m(m) in the MSbar scheme) the coupling far
         behind a wall may depend on the matching ratio k only beyond the working order: under scaling of
         alpha_s(ref) by lambda = 2^-j the relative difference a(k)/a(k=1) - 1 must vanish like lambda^order.
The evolution inside a patch is C15's subject.
"""

import itertools
import math

from vf.core.ctx import Result

ID = "C16"
LEVEL = "exploration"
TECHNIQUE = "exact series algebra for the coefficient tables + complete lattice of threshold crossings and paths"
LEVEL_TEXT = (
    "coefficient tables decided exactly (RG-derived logs, published constants); matching loop and "
    "path walk compared with an independent walker on the complete product of schemes, orders, "
    "directions, ratio assignments, reference patches, target scales and requested nf; matching-scale independence "
    "of the coupling behind each wall decided by measured scaling exponents"
)
LEVEL_NOTE = (
    "published constants and beta/gamma tables typed by hand (cross-checked at import: published logs "
    "== RG-derived logs, exact forms == printed decimals); table: in the MSbar scheme the logarithm is read as "
    "ln(mu^2/m_h(mu)^2) as in the cited literature; kinv: the logarithm is what Couplings computes, ln(ratio) with the "
    "mass number fixed; scales restricted to the lattice"
)
FLOOR_NONTRIVIAL = 10

M2 = [1.51**2, 4.92**2, 172.5**2]
SCHEMES = ["POLE", "MSBAR"]


# ------------------------------------------------------------------------------------------ table
def _eval_table(case):
    import mpmath as mp
    import numpy as np

    from eko import couplings as ec
    from vf.ref import c16_decoupling as dec

    scheme, nl = case["scheme"], case["nl"]
    res = Result()
    up = np.array(ec.compute_matching_coeffs_up(scheme, nl), dtype=float)
    down = np.array(ec.compute_matching_coeffs_down(scheme, nl), dtype=float)
    where = f"scheme={scheme} nl={nl}"
    if up.shape != (4, 4):
        res.fail("couplings.compute_matching_coeffs_up/shape", f"{where}: shape {up.shape}")
        return res
    # structure: nothing at a^0, no constant at a^1 (continuity for mu=m through NLO), k <= n
    for n in range(4):
        for k in range(4):
            if (n == 0 or k > n or (n == 1 and k == 0)) and up[n, k] != 0.0:
                res.fail(
                    f"couplings.compute_matching_coeffs_up/{scheme}/structure/c{n}{k}",
                    f"{where}: c[{n},{k}] = {up[n, k]!r} must vanish (unit ratio at LO, continuity at NLO for mu=m)",
                )
    pub = dec.coupling_up_published(scheme, nl)
    mx_const = mx_log = mx_inv = 0.0
    # constants against the literature
    for n in (2, 3):
        ref = pub[(n, 0)]
        dev = abs(mp.mpf(float(up[n, 0])) - ref) / abs(ref)
        mx_const = max(mx_const, float(dev))
        tol = mp.mpf("1e-13") if n == 2 else mp.mpf("2e-5")
        if dev > tol:
            res.fail(
                f"couplings.compute_matching_coeffs_up/{scheme}/const/c{n}0",
                f"{where}: c[{n},0] = {up[n, 0]!r}, published {mp.nstr(ref, 12)}",
            )
    # logarithms: derived from RG invariance with eko's own constants as boundary values
    consts = {n: mp.mpf(float(up[n, 0])) for n in (1, 2, 3)}
    rg = dec.coupling_up_rg(scheme, nl, consts)
    for n in (1, 2, 3):
        for k in range(1, n + 1):
            ref = rg.get((n, k), mp.mpf(0))
            dev = abs(mp.mpf(float(up[n, k])) - ref) / max(abs(ref), 1)
            if dev <= mp.mpf("1e-12"):
                mx_log = max(mx_log, float(dev))
            if dev > mp.mpf("1e-12"):
                res.fail(
                    f"couplings.compute_matching_coeffs_up/{scheme}/log/c{n}{k}",
                    f"{where}: coefficient of a^{n} L^{k} is {up[n, k]!r}; renormalisation-group invariance "
                    f"(beta^(nl), beta^(nl+1)" + (", gamma_m" if scheme == "MSBAR" else "") + f") with eko's own "
                    f"constants requires {mp.nstr(ref, 15)} (literature: {mp.nstr(pub.get((n, k), 0), 15)})",
                )
    # down table = perturbative inverse of eko's own up table
    upd = {(n, k): mp.mpf(float(up[n, k])) for n in range(1, 4) for k in range(4) if up[n, k] != 0.0}
    inv = dec.series_inverse_rel(upd)
    for n in range(4):
        for k in range(4):
            ref = inv.get((n, k), mp.mpf(0)) if n >= 1 else mp.mpf(0)
            dev = abs(mp.mpf(float(down[n, k])) - ref) / max(abs(ref), 1)
            mx_inv = max(mx_inv, float(dev))
            if dev > mp.mpf("1e-11"):
                res.fail(
                    f"couplings.invert_matching_coeffs/d{n}{k}",
                    f"{where}: down[{n},{k}] = {down[n, k]!r} but the perturbative inverse of the up table has "
                    f"{mp.nstr(ref, 15)}",
                )
    res.info = {"max_rel_dev_const": mx_const, "max_rel_dev_log_passing": mx_log, "max_rel_dev_inverse": mx_inv}
    res.outcome = "table"
    return res


# ------------------------------------------------------------------------------------------ jump
def _factor(table, a, L, order):
    f = 1.0
    for n in range(1, order):
        for k in range(n + 1):
            f += a**n * L**k * table[n, k]
    return f


TOL_NEAR = 0.1
TOL_NEAR_N3LO_EXPANDED = 0.25  # C15's recorded defect of expanded_n3lo is an error of the slope of up to 2 %


def _beta_truncated(order, running, nf, a_s, a_em):
    """d a_s / d ln mu^2 of the truncated RGE (independent table): -a^2 (sum_{j<n} beta_j a^j + a_em beta_(2,1))."""
    from vf.ref import c20_tables as tab

    b = sum(float(tab.beta_qcd((j + 2, 0), nf)) * a_s**j for j in range(order[0]))
    if order[1] >= 1:
        b += a_em * float(tab.beta_qcd((2, 1), nf))
    return -a_s * a_s * b


def _eval_jump(case):
    import numpy as np

    from eko import couplings as ec
    from vf.ref.c15_mk import make_couplings

    scheme, order, ratios, method = case["scheme"], tuple(case["order"]), case["ratios"], case["method"]
    running, alphas = case["running"], case["alphas"]
    res = Result()
    mx = 0.0
    mxn = mxn4 = 0.0
    n = 0
    crossed_nontrivially = 0
    for nl in (3, 4, 5):
        k = ratios[nl - 3]
        thr2 = M2[nl - 3] * k
        L = math.log(k)
        for direction in ("up", "down"):
            nf_ref = nl if direction == "up" else nl + 1
            mu_ref = math.sqrt(thr2) * (0.8 if direction == "up" else 1.25)
            sig = f"Couplings.a/jump/{direction}/order={order[0]}"
            where = f"scheme={scheme} order={order} method={method} ratios={ratios} nl={nl} {direction} alphas={alphas}"
            try:
                c = make_couplings(order, running, method, (mu_ref, nf_ref), alphas, 0.0075, M2, ratios, scheme)
                lo = np.array(c.a(thr2, nl), dtype=float)
                hi = np.array(c.a(thr2, nl + 1), dtype=float)
            except Exception as e:  # noqa
                res.fail(sig + "/raises", f"{where}: {type(e).__name__}: {e}")
                continue
            if direction == "up":
                table = np.array(ec.compute_matching_coeffs_up(scheme, nl), dtype=float)
                src, dst = lo, hi
            else:
                table = np.array(ec.compute_matching_coeffs_down(scheme, nl), dtype=float)
                src, dst = hi, lo
            want = src[0] * _factor(table, src[0], L, order[0])
            dev = abs(dst[0] / want - 1.0)
            mx = max(mx, dev)
            n += 1
            if dst[0] != src[0]:
                crossed_nontrivially += 1
            if not dev <= 1e-13:
                res.fail(
                    sig,
                    f"{where}: a_s just {'above' if direction == 'up' else 'below'} the threshold is {dst[0]!r}, "
                    f"the decoupling relation (table of nl={nl}, L=ln {k}) applied to {src[0]!r} gives {want!r}",
                )
            if dst[1] != src[1]:
                res.fail("Couplings.a/jump/a_em-changes", f"{where}: a_em {src[1]!r} -> {dst[1]!r}")
            # just behind the wall (not on it): the coupling must have moved as its RGE says
            s_ = 1.0 if direction == "up" else -1.0
            nf_behind = nl + 1 if direction == "up" else nl
            for f in (1 + s_ * 1e-10, 1 + s_ * 1e-7, 1 + s_ * 3e-4, 1 - s_ * 3e-4):
                try:
                    near = np.array(c.a(thr2 * f, nf_behind), dtype=float)
                except Exception as e:  # noqa
                    res.fail(sig + "/raises", f"{where} then mu2=wall*{f!r}: {type(e).__name__}: {e}")
                    continue
                want_change = _beta_truncated(order, running, nf_behind, dst[0], dst[1]) * math.log(f)
                devn = abs((near[0] - dst[0]) / want_change - 1.0)
                n3lo_exp = method == "expanded" and order[0] == 4
                if n3lo_exp:
                    mxn4 = max(mxn4, devn)
                else:
                    mxn = max(mxn, devn)
                tol = TOL_NEAR_N3LO_EXPANDED if n3lo_exp else TOL_NEAR
                if not devn <= tol:
                    res.fail(
                        f"Couplings.a/near-wall/{direction}",
                        f"{where}: a_s(wall*{f!r}, nf={nf_behind}) - a_s(wall, nf={nf_behind}) = {near[0] - dst[0]!r} but "
                        f"beta(a) ln({f!r}) = {want_change!r} (relative deviation {devn:.3e} > {tol}); only a segment of zero length "
                        "up to rounding (1e-14) may be skipped",
                    )
            # continuity: LO always, NLO for mu = m
            if (order[0] == 1 or (order[0] == 2 and k == 1.0)) and dst[0] != src[0]:
                res.fail(
                    f"Couplings.a/continuity/order={order[0]}",
                    f"{where}: {src[0]!r} -> {dst[0]!r}, must be continuous with unit ratio",
                )
    res.info = {"max_rel_dev_jump": mx, "crossings": n, "max_rel_dev_change_near_wall": mxn, "max_rel_dev_change_near_wall_expanded_n3lo": mxn4}
    res.nontrivial = crossed_nontrivially > 0 or order[0] == 1
    res.outcome = f"jump/order={order[0]}/discontinuous={crossed_nontrivially > 0}"
    return res


# ------------------------------------------------------------------------------------------ path
def _walk(case, target, walls):
    """Independent walk: returns np.array([a_s, a_em]) at target = (mu2, nf_to|None)."""
    import numpy as np

    from eko import couplings as ec
    from vf.ref import paths as refp
    from vf.ref.c15_mk import ffns_couplings

    scheme, order, ratios, method = case["scheme"], tuple(case["order"]), case["ratios"], case["method"]
    mu_ref, nf_ref = case["ref"]
    a = np.array([case["alphas"], 0.0075]) / 4.0 / np.pi
    steps = refp.ref_matched_path(walls, (mu_ref**2, nf_ref), target)
    nmatch = 0
    for st in steps:
        if st[0] == "seg":
            _, s0, s1, nf = st
            if s0 == s1:
                continue
            c = ffns_couplings(order, case["running"], method, nf, a[0] * 4.0 * np.pi, a[1] * 4.0 * np.pi, math.sqrt(s0))
            a = np.array(c.a(s1, nf), dtype=float)
        else:
            _, scale, hq, inverse = st
            nl = hq - 1
            k = ratios[hq - 4]
            table = np.array(
                ec.compute_matching_coeffs_down(scheme, nl) if inverse else ec.compute_matching_coeffs_up(scheme, nl),
                dtype=float,
            )
            a = np.array([a[0] * _factor(table, a[0], math.log(k), order[0]), a[1]])
            nmatch += 1
    return a, nmatch


TOL_PATH_TIGHT = 1e-11  # measured maximum 4.0e-13 (thorough), 2.6e-14 (quick)


def _eval_path(case):
    import warnings

    import numpy as np

    from vf.ref.c15_mk import make_couplings

    scheme, order, ratios, method = case["scheme"], tuple(case["order"]), case["ratios"], case["method"]
    mu_ref, nf_ref = case["ref"]
    walls = [m * r for m, r in zip(M2, ratios)]
    res = Result()
    scales = sorted({1.2**2, 3.0**2, 50.0**2, 500.0**2, mu_ref**2} | set(walls) | {0.9 * w for w in walls} | {1.1 * w for w in walls})
    # matching scales that are not ordered like the masses: there is no default number of flavours (nf_default
    # refuses); with explicit nf the path still steps quark by quark over that quark's scale
    ordered = walls == sorted(walls)
    nf_tos = (None, 3, 4, 5, 6) if ordered else (3, 4, 5, 6)
    mx = 0.0
    npaths = 0
    nmatch_total = 0
    shapes = set()
    with warnings.catch_warnings():
        warnings.simplefilter("ignore")
        try:
            c = make_couplings(order, case["running"], method, (mu_ref, nf_ref), case["alphas"], 0.0075, M2, ratios, scheme)
        except Exception as e:  # noqa
            res.fail("Couplings/raises", f"{case}: {type(e).__name__}: {e}")
            return res
        for mu2 in scales:
            for nf_to in nf_tos:
                sig = f"Couplings.a/path/order={order[0]}"
                where = f"scheme={scheme} order={order} method={method} ratios={ratios} ref={case['ref']} target=({mu2!r},{nf_to})"
                try:
                    got = np.array(c.a(mu2, nf_to), dtype=float)
                except Exception as e:  # noqa
                    res.fail(sig + "/raises", f"{where}: {type(e).__name__}: {e}")
                    continue
                want, nmatch = _walk(case, (mu2, nf_to), walls)
                npaths += 1
                nmatch_total += nmatch
                shapes.add(nmatch)
                if not (np.all(np.isfinite(want)) and np.all(np.isfinite(got))):
                    # outside the perturbative range (Landau pole inside a formal patch): both must agree on that
                    if bool(np.all(np.isfinite(want))) != bool(np.all(np.isfinite(got))):
                        res.fail(sig + "/finite", f"{where}: got {got}, independent walk {want}")
                    continue
                dev = float(np.max(np.abs(got / want - 1.0)))
                # a coupling that ran into the Landau region amplifies rounding without bound
                if max(abs(want[0]), abs(got[0])) > 0.5 / (4 * math.pi) or min(want[0], got[0]) <= 0:
                    continue
                mx = max(mx, dev)
                if not dev <= 1e-9:
                    res.fail(sig, f"{where}: Couplings.a = {got.tolist()}, independent walk along the walls = {want.tolist()}")
                elif not dev <= TOL_PATH_TIGHT:
                    res.fail(sig + "/tight", f"{where}: Couplings.a = {got.tolist()}, independent walk along the walls = {want.tolist()} (relative deviation {dev:.3e} > {TOL_PATH_TIGHT})")
    res.info = {"max_rel_dev_path": mx, "paths": npaths, "matchings": nmatch_total}
    res.outcome = f"path/max-matchings={max(shapes) if shapes else 0}" + ("" if ordered else "/unordered-walls")
    res.nontrivial = nmatch_total > 0
    return res


# ------------------------------------------------------------------------------------------ kinv
KINV_NLAMBDA = 10
KINV_FLOOR = 1e-14
KINV_ALPHAS = 0.2


def _asymptotic_exponent(rs, floor):
    """Local exponents log2(r_j / r_(j+1)) of |r_j| (lambda = 2^-j) and the pair of consecutive ones at the smallest
    couplings that agree to 0.15 (None if there is no such pair)."""
    seq = [(j, abs(r)) for j, r in enumerate(rs) if r is not None and abs(r) >= floor]
    exps = [(j1, math.log2(r0 / r1)) for (j0, r0), (j1, r1) in zip(seq, seq[1:]) if j1 == j0 + 1]
    for i in range(len(exps) - 1, 0, -1):
        if exps[i][0] == exps[i - 1][0] + 1 and abs(exps[i][1] - exps[i - 1][1]) <= 0.15:
            return exps, [exps[i - 1][1], exps[i][1]]
    return exps, None


def _eval_kinv(case):
    import warnings

    import mpmath as mp
    import numpy as np

    from eko import couplings as ec
    from vf.ref import c20_tables as tab
    from vf.ref.c15_mk import make_couplings

    scheme, n, method, wall, direction, kk = case["scheme"], case["order"], case["method"], case["wall"], case["direction"], case["k"]
    res = Result()
    nl = wall + 3
    m = math.sqrt(M2[wall])
    # reference in the patch in front of the wall, target far behind it (both fixed, clear of the moved wall)
    if direction == "up":
        ref, tgt = (0.6 * m, nl), ((3.0 * m) ** 2, nl + 1)
    else:
        ref, tgt = (3.0 * m, nl + 1), ((0.6 * m) ** 2, nl)
    where = f"scheme={scheme} order=({n},0) method={method} wall of quark {nl + 1} (m^2={M2[wall]!r}) {direction} ref={ref} target={tgt} k={kk} vs k=1, alpha_s(ref)={KINV_ALPHAS}*2^-j"
    sig = f"Couplings.a/matching-scale-independence/{scheme}/order={n}"
    rs = []
    with warnings.catch_warnings():
        warnings.simplefilter("ignore")
        for j in range(KINV_NLAMBDA):
            vals = []
            for r in (1.0, kk):
                ratios = [1.0, 1.0, 1.0]
                ratios[wall] = r
                try:
                    c = make_couplings((n, 0), False, method, ref, KINV_ALPHAS * 2.0**-j, 0.0075, M2, ratios, scheme)
                    vals.append(float(c.a(tgt[0], tgt[1])[0]))
                except Exception as e:  # noqa
                    res.fail(sig + "/raises", f"{where} j={j} ratio={r}: {type(e).__name__}: {e}")
                    return res
            rs.append(vals[1] / vals[0] - 1.0 if all(np.isfinite(vals)) and vals[0] > 0 else None)
    exps, last = _asymptotic_exponent(rs, KINV_FLOOR)
    shown = (
        f"{where}: a_s(k)/a_s(1) - 1 for j=0..{KINV_NLAMBDA - 1}: {[None if r is None else float('%.4e' % r) for r in rs]}; "
        f"local exponents {[round(e, 2) for _, e in exps]}"
    )
    info = {}
    if last is None:
        res.info = {"residuals": rs}
        res.nontrivial = False
        res.outcome = f"kinv/order={n}/inconclusive"
        return res
    demand = float(n)
    if last[-1] >= demand - 0.25:
        info["max_exponent_shortfall_kinv"] = demand - last[-1]
    else:
        # the one way of failing that is understood: the a^2 L coefficient of the table belongs to L = ln(mu^2/m(mu)^2)
        # (running mass), while Couplings evaluates L = ln(ratio) with the mass number fixed, for which
        # renormalisation-group invariance needs beta_1^(nl) - beta_1^(nl+1):
        #     lim (a(k)/a(1) - 1) / a_ref^2 = -/+ (required - table) ln k        (up / down)
        from vf.ref import c16_decoupling as dec

        up = np.array(ec.compute_matching_coeffs_up(scheme, nl), dtype=float)
        required = float(tab.beta_qcd((3, 0), nl) - tab.beta_qcd((3, 0), nl + 1))
        running_mass_c21 = float(dec.coupling_up_published("MSBAR", nl)[(2, 1)])  # literature, not eko's table
        model = (-1.0 if direction == "up" else 1.0) * (required - running_mass_c21) * math.log(kk)
        a_ref = [KINV_ALPHAS * 2.0**-j / (4 * math.pi) for j in range(KINV_NLAMBDA)]
        coeff = [None if r is None else r / a**2 for r, a in zip(rs, a_ref)]
        measured = None if coeff[-1] is None or coeff[-2] is None else 2 * coeff[-1] - coeff[-2]
        pinned = (
            scheme == "MSBAR"
            and n >= 3
            and abs(last[-1] - 2.0) <= 0.1
            and measured is not None
            and model != 0.0
            and abs(measured / model - 1.0) <= 0.02
        )
        if pinned:
            sig += "/table-for-running-mass-used-with-fixed-mass"
            info["max_rel_dev_pinned_running_mass_log"] = abs(measured / model - 1.0)
        res.fail(
            sig,
            f"{shown}; the asymptotic pair is {[round(e, 2) for e in last]}, its last member must be >= {demand - 0.25} (the dependence on the "
            f"matching ratio must be beyond the working order: relative lambda^{n}). lim (a(k)/a(1)-1)/a_ref^2 measured {measured!r}; "
            f"the running-mass coefficient c21 = {running_mass_c21!r} (eko's table has {float(up[2, 1])!r}) where a fixed mass needs "
            f"beta_1^({nl}) - beta_1^({nl + 1}) = {required!r} predicts {model!r}",
        )
    res.info = dict(info, residuals=rs)
    res.outcome = f"kinv/order={n}/exponent={round(last[-1])}"
    return res


def evaluate(case):
    return {"table": _eval_table, "jump": _eval_jump, "path": _eval_path, "kinv": _eval_kinv}[case["kind"]](case)


RATIO_SETS_QUICK = [[0.5, 1.0, 2.0], [2.0, 0.5, 1.0], [1.0, 2.0, 0.5], [1.0, 1.0, 1.0]]
RATIO_SETS_THOROUGH = RATIO_SETS_QUICK + [[0.25, 4.0, 0.7], [4.0, 1.5, 0.25], [1.5, 0.7, 4.0]]
REFS = [[1.3, 3, 0.35], [3.0, 4, 0.25], [91.2, 5, 0.118], [300.0, 6, 0.10], [91.2, 4, 0.118], [3.0, 5, 0.25], [4.92, 5, 0.21], [10.0, None, 0.18]]
ORDERS_QCD = [[1, 0], [2, 0], [3, 0], [4, 0]]
RATIOS_UNORDERED = [4.0, 0.25, 1.0]


def run(ctx):
    thorough = ctx.thorough()
    cases = [{"kind": "table", "scheme": s, "nl": nl} for s in SCHEMES for nl in (3, 4, 5)]
    rsets = RATIO_SETS_THOROUGH if thorough else RATIO_SETS_QUICK
    orders = ORDERS_QCD + [[3, 1], [2, 2]]
    for s, o, r in itertools.product(SCHEMES, orders, rsets):
        qed = o[1] > 0
        for method in ["expanded", "exact"]:
            for alphas in [0.118, 0.3] if thorough else [0.2]:
                cases.append({"kind": "jump", "scheme": s, "order": o, "ratios": r, "method": method, "running": qed, "alphas": alphas})
    for s, o, r, ref in itertools.product(SCHEMES, orders, rsets, REFS):
        qed = o[1] > 0
        methods = ["expanded", "exact"] if thorough else ["expanded"]
        if not thorough and r == [1.0, 1.0, 1.0] and o in ([2, 0], [4, 0]):
            methods = ["expanded", "exact"]
        for method in methods:
            cases.append({"kind": "path", "scheme": s, "order": o, "ratios": r, "method": method, "running": qed, "ref": ref[:2], "alphas": ref[2]})
    # matching scales not ordered like the masses (mu_b^2 = 6.05 < mu_c^2 = 9.12): explicit nf only
    for s, o, ref in itertools.product(SCHEMES, [[2, 0], [4, 0], [3, 1]], [r for r in REFS if r[1] is not None]):
        for method in ["expanded", "exact"] if thorough else ["expanded"]:
            cases.append({"kind": "path", "scheme": s, "order": o, "ratios": RATIOS_UNORDERED, "method": method, "running": o[1] > 0, "ref": ref[:2], "alphas": ref[2]})
    # matching-scale independence with fixed mass numbers
    for s, n, wall, direction, k in itertools.product(SCHEMES, [1, 2, 3, 4], [0, 1, 2], ["up", "down"], [0.5, 2.0]):
        for method in ["expanded", "exact"] if (thorough or wall == 1) else ["expanded"]:
            cases.append({"kind": "kinv", "scheme": s, "order": n, "method": method, "wall": wall, "direction": direction, "k": k})
    ctx.run_cases(cases, evaluate)
    ctx.rule = (
        "table: 2 schemes x nl 3,4,5 (all 16 entries of the up table and of the down table); "
        "jump: 2 schemes x 6 orders (QCD 1-4, two QED) x ratio assignments (every quark sees 0.5/1/2; thorough also "
        "0.25/0.7/1.5/4) x method x alpha_s, each case crossing the 3 thresholds in both directions; "
        "path: the same product x 8 reference points (one per patch, two with non-default nf_ref, one on a wall, one "
        "with nf_ref=None), each case asking 16+ target scales (below/on/above every wall, far points) x nf_to in "
        "{None,3,4,5,6}, plus the ratio assignment 4/0.25/1 (matching scales not ordered like the masses) for 3 orders x 7 "
        "references with explicit nf; jump cases also ask 4 scales just behind every wall (squared scale x (1 + 1e-10), (1 + 1e-7), (1 +- 3e-4)); "
        "kinv: 2 schemes x QCD order 1-4 x 3 walls x up/down x k in {0.5,2} x method (quick: exact only for the bottom wall), "
        "10 scalings of alpha_s(ref) each; "
        "non-trivial = a matching was applied (jump: the coupling is discontinuous or order 1; kinv: an asymptotic exponent was measured)"
    )
    ctx.assumptions += [
        "MSbar: L = ln(mu^2/m_h(mu)^2), i.e. the masses handed to Couplings are the running masses at the matching scale "
        "(Schroder-Steinhauser / Chetyrkin-Kniehl-Steinhauser convention quoted by the code)",
        "c30 compared with 2e-5 relative tolerance (the code carries 6 printed digits); rational entries to 1e-12",
        "path walk compared to 1e-9 relative (signature .../tight: 1e-11) for couplings with alpha_s <= 0.5 (beyond that only finiteness class)",
        "near-wall: change of a_s over a segment of relative length 1e-10 / 1e-7 / 3e-4 vs beta(a) dt of the truncated RGE to 10 % (N3LO expanded: 25 %)",
        "kinv: the mass numbers handed to Couplings are held fixed while the ratio varies (pole mass / scale-invariant MSbar mass m(m), "
        "as delivered by eko.io.runcards.masses to eko.runner.commons.couplings); asymptotic window as in C15 (pair of local exponents "
        "agreeing to 0.15, residuals below 1e-14 skipped); demand: exponent >= order - 0.25",
        "evolution inside a patch is trusted here (decided by C15)",
    ]
