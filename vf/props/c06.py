"""C06 split-path evolutions compose consistently (X-conf, S2 + S3).

(i) Moment seam: for every admissible scale triple (mu0, mu1, mu2) on a lattice inside patches and
across matching scales (including "down then up" inside a patch), E(mu2<-mu1) E(mu1<-mu0) is
compared with E(mu2<-mu0) along the same flavour path, exact solution method with n and 2n
iterations: relative distance <= 1e-4 (the statement's 1e-3 is the x-space tolerance; the moment seam has no
interpolation error) and shrinking at least by the factor 1/2 when the iterations double (measured: 1/4, the
second-order discretisation of the iterated solution); non-singlet channel u - ubar: exact composition, 1e-10.
Added families (same oracle): origins / targets / intermediate points whose nf is not the natural one of their scale (the direct
path first runs against its overall direction inside the patch, then matches), intermediate points sitting exactly on a matching
scale (zero-length segments, pure-matching legs), matching ratios != 1, and "overshoot" splits (the split leaves the direct
flavour path through a neighbouring patch and returns, round trips included): these compose only if the exact backward matching
is the matrix inverse of the forward one.
(ii) x space, no stubs: the same comparison applied to toy PDFs on 15- and 25-point grids on
[1e-2, 1]: <= 1e-3 on the 25-point grid and smaller than on the 15-point grid.
"""

import itertools

import numpy as np

from vf.core import cards, probe
from vf.core.ctx import Result

ID = "C06"
LEVEL = "exploration"
TECHNIQUE = "exhaustive enumeration of scale triples x orders x iteration counts through the real runner (Mellin moments) + un-stubbed x-space solves on two grids; composition oracle"
LEVEL_TEXT = (
    "all ordered scale triples of a 6-point (scale, nf) lattice whose split path follows the direct flavour path, at LO/NLO/NNLO, are solved "
    "directly and in two steps; the two results must agree to the accuracy of the iterated exact method (1e-4 with >= 15 iterations) and "
    "improve at least linearly with it; the same for the complete families of triples with points of non-natural nf, points on a matching "
    "scale, matching ratios != 1, and for all splits that overshoot into a neighbouring patch and come back (exact backward matching)"
)
LEVEL_NOTE = (
    "scales restricted to the lattices; iterate-exact and exact inversion only (the approximate methods / the expanded inversion do not compose by "
    "design); both sides of a non-overshooting triple share kernels and matching matrices, so only the group property inside a patch and the "
    "path logic are decided there; x-space part: two grids, few cards"
)
FLOOR_NONTRIVIAL = 40

PID = probe.FLAVOR_PIDS
M = [2.0, 4.5, 100.0]
POINTS = [(1.5, 3), (2.5, 4), (3.5, 4), (4.2, 4), (6.0, 5), (10.0, 5)]
MOMENTS = [2.0, 3.5, 6.0]
# (scale, nf) with nf not the natural one: a direct path from (3.0, 3) upwards first runs DOWN to the charm wall at 2.0 inside nf=3,
# one from (4.0, 5) downwards first runs UP to the bottom wall at 4.5 inside nf=5 (and the mirror images for targets)
OFF_POINTS = [(3.0, 3), (4.0, 5)]
# points exactly on a matching scale, on either side of it
WALL_POINTS = [(2.0, 3), (2.0, 4), (4.5, 4), (4.5, 5)]
# matching ratios != 1: walls at 3.0 (charm) and 3.6 (bottom), a_s discontinuous there, matching logarithms != 0
RATIOS = [1.5, 0.8, 1.0]
# composition distance of the iterated exact solution: O(1/n^2) discretisation, measured <= 5.9e-6 (n=15/30; 1.7e-6 at n=30/60) on the unchanged tree
TIGHT = 1e-4
# measured d(2n)/d(n) = 0.2500 +- 1e-4 wherever d(n) > 1e-9; required: at least first-order convergence
RATE = 0.5


def admissible(p0, p1, p2):
    """The split path must follow the direct one: nf1 between nf0 and nf2."""
    return min(p0[1], p2[1]) <= p1[1] <= max(p0[1], p2[1])


ONE_PER_PATCH = [(1.5, 3), (3.5, 4), (6.0, 5)]
OUTER = [(1.5, 3), (6.0, 5)]


def _family_triples(thorough):
    """The added families of triples: {family: [(order, triple, extra)]}; complete enumerations of explicit lattices.

    quick is a sub-enumeration of thorough (smaller end-point lattice / fewer orders), never a sample.
    """
    P = POINTS
    NLO, NNLO = [2, 0], [3, 0]
    fam = {}
    # (a) non-natural nf: every admissible triple of (lattice + OFF_POINTS) that contains an off point
    #     quick: partners from the two outer patches, NLO; thorough: the whole lattice, NLO, and every second triple at NNLO
    base = P if thorough else OUTER
    off = [t for t in itertools.permutations(base + OFF_POINTS, 3) if admissible(*t) and any(p in OFF_POINTS for p in t)]
    fam["offnf"] = [(NLO, t, None) for t in off] + ([(NNLO, t, None) for t in off[::2]] if thorough else [])
    # (b) intermediate point on a wall, end points in the lattice (quick: one point per patch); plus legs that are a pure matching
    ends = P if thorough else OUTER
    wall = [(a, w, c) for w in WALL_POINTS for a in ends for c in ends if a != c and admissible(a, w, c)]
    pure = [
        ((1.5, 3), (2.0, 3), (2.0, 4)),
        ((2.0, 3), (2.0, 4), (3.5, 4)),
        ((3.5, 4), (2.0, 4), (2.0, 3)),
        ((2.0, 4), (2.0, 3), (1.5, 3)),
        ((3.5, 4), (4.5, 4), (4.5, 5)),
        ((4.5, 4), (4.5, 5), (6.0, 5)),
        ((6.0, 5), (4.5, 5), (4.5, 4)),
        ((4.5, 5), (4.5, 4), (3.5, 4)),
        ((2.0, 3), (3.5, 4), (4.5, 5)),
        ((4.5, 5), (3.5, 4), (2.0, 3)),
    ]
    fam["wall"] = [(NNLO, t, None) for t in wall + pure]
    if thorough:
        fam["wall"] += [(NLO, t, None) for t in wall + pure] + [([1, 0], t, None) for t in wall + pure]
    # (c) matching ratios != 1 for the monotone triples across a matching (quick: alternating NNLO / NLO; thorough: both)
    mono = [
        t
        for t in itertools.permutations(P, 3)
        if admissible(*t) and (t[0][0] - t[1][0]) * (t[1][0] - t[2][0]) > 0 and len({p[1] for p in t}) > 1
    ]
    rat = dict(ratios=RATIOS)
    fam["ratios"] = [(NNLO, t, rat) for t in (mono if thorough else mono[::4])]
    if thorough:
        fam["ratios"] += [(NLO, t, rat) for t in mono]
    # (d) overshoot: the intermediate nf lies outside [nf0, nf2] (the split crosses a matching and crosses it back), and round
    #     trips p0 -> p1 -> p0 (direct evolution = identity). NNLO: non-trivial matching matrices; NLO: intrinsic columns only.
    over = [t for t in itertools.permutations(P, 3) if not admissible(*t)]
    trips = [(a, b, a) for a in P for b in P if a != b]
    leaving = [t for t in trips if t[0][1] != t[1][1]]
    if thorough:
        fam["overshoot"] = [(NNLO, t, None) for t in over] + [(NNLO, t, rat) for t in over] + [(NLO, t, None) for t in over]
        fam["roundtrip"] = [(NNLO, t, None) for t in trips] + [(NLO, t, None) for t in trips] + [(NNLO, t, rat) for t in leaving]
    else:
        # quick: every eighth overshoot triple without and (shifted by four) with the matching ratios; round trips between the
        # points of ONE_PER_PATCH (all leave their patch)
        fam["overshoot"] = [(NNLO, t, None) for t in over[::8]] + [(NNLO, t, rat) for t in over[4::8]]
        fam["roundtrip"] = [(NNLO, (a, b, a), None) for a in ONE_PER_PATCH for b in ONE_PER_PATCH if a != b]
    # (e) short legs: a leg over which the coupling changes by less than 1e-4 (a few per mille in mu), first or last; a kernel that
    #     treats nearly equal couplings as equal freezes such a leg in one sector while the direct evolution includes it
    short = []
    for a, c in ((P[1], P[5]), (P[4], P[0]), (P[2], P[3])) if not thorough else [(a, c) for a in P for c in P if a != c]:
        for eps in (0.004, -0.004) if thorough else (0.004,):
            b1 = (a[0] * (1 + eps), a[1])
            b2 = (c[0] * (1 + eps), c[1])
            if admissible(a, b1, c):
                short.append((a, b1, c))
            if admissible(a, c, b2):
                short.append((a, c, b2))
    fam["shortleg"] = [(NLO, t, None) for t in short] + ([(NNLO, t, None) for t in short] if thorough else [(NNLO, t, None) for t in short[::2]])
    return fam


def _cfg(order, its, init, targets, extra=None):
    c = dict(
        order=order,
        method="iterate-exact",
        masses=M,
        init=list(init),
        mugrid=[list(t) for t in targets],
        iterations=its,
        inversion="exact",
    )
    c.update(extra or {})
    return c


def _dist_moments(order, its, p0, p1, p2, extra):
    a = probe.moment_solve(_cfg(order, its, p0, [p1, p2], extra), MOMENTS)
    b = probe.moment_solve(_cfg(order, its, p1, [p2], extra), MOMENTS)
    e1 = a[(p1[0] ** 2, p1[1])]
    e2d = a[(p2[0] ** 2, p2[1])]
    (k, e21), = b.items()
    comp = np.einsum("mab,mbc->mac", e21, e1)
    d_full = float(np.abs(comp - e2d).max() / np.abs(e2d).max())
    # valence-like channel u - ubar (pure non-singlet): composes exactly
    u, ub = PID.index(2), PID.index(-2)
    ns_c = comp[:, u, u] - comp[:, u, ub]
    ns_d = e2d[:, u, u] - e2d[:, u, ub]
    d_ns = float(np.abs(ns_c - ns_d).max() / np.abs(ns_d).max())
    return d_full, d_ns


def evaluate(case):
    res = Result()
    order = case["order"]
    try:
        if case["seam"] == "s2":
            p0, p1, p2 = [tuple(p) for p in case["triple"]]
            extra = case.get("extra")
            n = case["iterations"]
            d1, ns1 = _dist_moments(order, n, p0, p1, p2, extra)
            d2, ns2 = _dist_moments(order, 2 * n, p0, p1, p2, extra)
            lever = (p0[0] - p1[0]) * (p1[0] - p2[0])
            shape = "monotone" if lever > 0 else "back-and-forth" if lever < 0 or "family" not in case else "zero-leg"
            cross = "across" if len({p0[1], p1[1], p2[1]}) > 1 else "inside"
            where = f"order={order} triple={case['triple']} iterations={n}/{2*n} extra={extra}"
            cls = f"order={order[0]}/{shape}/{cross}" + (f"/{case['family']}" if "family" in case else "")
            if not np.isfinite(d2) or d2 > TIGHT:
                res.fail(f"moment/composition/{cls}", f"{where}: |E21 E10 - E20| / |E20| = {d2:.3e} > {TIGHT} with {2*n} iterations ({d1:.3e} with {n})")
            elif d2 > d1 * RATE and d2 > 1e-9:
                res.fail(
                    f"moment/no-improvement/{cls}",
                    f"{where}: distance {d1:.3e} ({n} iterations) -> {d2:.3e} ({2*n} iterations) does not shrink by the factor {RATE} at least",
                )
            # at NNLO the valence kernel is not the minus kernel: u-ubar mixes nsV and ns-, both exact
            if max(ns1, ns2) > 1e-10:
                res.fail(f"moment/nonsinglet-composition/{cls}", f"{where}: non-singlet channel composes only to {max(ns1, ns2):.3e}")
            res.info = {"max_dist": d2, "max_ns_dist": max(ns1, ns2), "max_ratio_2n_over_n": d2 / d1 if d1 > 1e-9 else 0.0}
            res.outcome = f"moment:{cls}"
            if "family" in case:
                res.info[f"max_dist_{case['family']}"] = d2
        else:
            p0, p1, p2 = [tuple(p) for p in case["triple"]]
            dists = []
            for npts in (15, 25):
                xg = np.geomspace(1e-2, 1.0, npts).tolist()
                extra = dict(xgrid=xg, degree=3, cores=case.get("cores", 6), ratios=case.get("ratios", [1.0, 1.0, 1.0]), ref=case.get("ref", [91.2, 5]))
                a = cards.solve_ops(_cfg(order, case["iterations"], p0, [p1, p2], extra), tag="c06a")
                b = cards.solve_ops(_cfg(order, case["iterations"], p1, [p2], extra), tag="c06b")
                e1 = a[(p1[0] ** 2, p1[1])][0]
                e2d = a[(p2[0] ** 2, p2[1])][0]
                (k, (e21, _)), = b.items()
                x = np.array(xg)
                f0 = _toy(x)
                split = np.einsum("ajbk,bk->aj", e21, np.einsum("ajbk,bk->aj", e1, f0))
                direct = np.einsum("ajbk,bk->aj", e2d, f0)
                worst = 0.0
                for i, p in enumerate(PID):
                    scale = np.abs(direct[i]).max()
                    if scale > 1e-6:
                        worst = max(worst, float(np.abs(split[i] - direct[i])[:-1].max() / scale))
                dists.append(worst)
            where = f"order={order} triple={case['triple']} grids 15/25: distances {dists}"
            xcls = f"order={order[0]}" + (f"/{case['family']}" if "family" in case else "")
            if not np.isfinite(dists[1]) or dists[1] > 1e-3:
                res.fail(f"xspace/composition/{xcls}", f"{where}: relative distance on the 25-point grid > 1e-3")
            if dists[1] >= dists[0] and dists[1] > 1e-9:
                res.fail(f"xspace/no-refinement-gain/{xcls}", f"{where}: the discrepancy does not shrink under grid refinement")
            res.info = {"max_x_dist_25": dists[1], "max_x_dist_15": dists[0]}
            res.outcome = "xspace" + (f":{case['family']}" if "family" in case else "")
    except (NotImplementedError, ValueError) as e:
        res.outcome = f"refused:{str(e)[:50]}"
        res.nontrivial = False
    except Exception as e:  # noqa
        import traceback

        res.fail(f"solve/crash/{type(e).__name__}/{case['seam']}", f"{case}: {type(e).__name__}: {str(e)[:200]} {traceback.format_exc()[-400:]}")
    return res


def _toy(x):
    xuv = 5.107200 * x**0.8 * (1 - x) ** 3
    xdv = 3.064320 * x**0.8 * (1 - x) ** 4
    xg = 1.7 * x**-0.1 * (1 - x) ** 5
    xdb = 0.1939875 * x**-0.1 * (1 - x) ** 6
    xub = (1 - x) * xdb
    xs = 0.2 * (xub + xdb)
    out = {21: xg, 2: xuv + xub, -2: xub, 1: xdv + xdb, -1: xdb, 3: xs, -3: xs}
    return np.array([out.get(p, np.zeros_like(x)) for p in PID]) / x


def run(ctx):
    triples = [t for t in itertools.permutations(POINTS, 3) if admissible(*t)]
    cases = []
    xs = [
        dict(seam="s3", order=[1, 0], triple=[[3.0, 4], [5.0, 4], [10.0, 4]], iterations=10, ratios=[1.0, "inf", "inf"], ref=[10.0, 4]),
        dict(seam="s3", order=[2, 0], triple=[[3.0, 4], [2.5, 4], [4.0, 4]], iterations=10),
    ]
    if ctx.thorough():
        xs += [
            dict(seam="s3", order=[1, 0], triple=[[3.0, 4], [4.2, 4], [10.0, 5]], iterations=10),
            dict(seam="s3", order=[2, 0], triple=[[3.0, 4], [6.0, 5], [10.0, 5]], iterations=10),
            dict(seam="s3", order=[3, 0], triple=[[3.0, 4], [3.5, 4], [4.2, 4]], iterations=10),
            dict(seam="s3", order=[2, 0], triple=[[6.0, 5], [3.0, 4], [1.5, 3]], iterations=10),
            # overshoot in x space: up across the bottom wall and back (needs backward matching = inverse of the forward one)
            dict(seam="s3", order=[3, 0], triple=[[3.0, 4], [6.0, 5], [4.0, 4]], iterations=10, family="overshoot"),
        ]
    cases += xs
    orders = [[1, 0], [2, 0], [3, 0]]
    for order in orders:
        for t in triples:
            if not ctx.thorough() and order[0] == 3 and (POINTS.index(t[0]) + POINTS.index(t[1]) + POINTS.index(t[2])) % 2:
                continue
            cases.append(dict(seam="s2", order=order, triple=[list(p) for p in t], iterations=15 if not ctx.thorough() else 30))
    if ctx.thorough():
        for t in triples[::3]:
            cases.append(dict(seam="s2", order=[2, 0], triple=[list(p) for p in t], iterations=30, extra=dict(polarized=True)))
            cases.append(dict(seam="s2", order=[2, 0], triple=[list(p) for p in t], iterations=30, extra=dict(time_like=True)))
    fam = _family_triples(ctx.thorough())
    for name, lst in fam.items():
        for order, t, extra in lst:
            c = dict(seam="s2", order=order, triple=[list(p) for p in t], iterations=15 if not ctx.thorough() else 30, family=name)
            if extra:
                c["extra"] = extra
            cases.append(c)
    ctx.run_cases(cases, evaluate, chunksize=1)
    ctx.extra["admissible_triples"] = len(triples)
    ctx.extra["family_cases"] = {k: len(v) for k, v in fam.items()}
    ctx.rule = (
        f"all {len(triples)} ordered triples of the lattice {POINTS} (charm wall at 2, bottom at 4.5) whose intermediate nf lies between the end "
        "points' nf (monotone, back-and-forth, inside a patch and across one or two matchings) x LO/NLO/NNLO, iterate-exact with n and 2n iterations, exact "
        f"backward matching; added families, each a complete enumeration of its (tier-dependent) lattice ({ctx.extra['family_cases']} cases): offnf = every "
        f"admissible triple of ({'the lattice' if ctx.thorough() else str(OUTER)} + {OFF_POINTS}) containing a point of non-natural nf (the direct path runs "
        f"down/up inside the patch before/after its matching), NLO{' and every second at NNLO' if ctx.thorough() else ''}; wall = intermediate point in "
        f"{WALL_POINTS} (on a matching scale, either side) between end points of {'the lattice' if ctx.thorough() else str(OUTER)} + 10 triples with a "
        f"pure-matching leg, {'LO/NLO/NNLO' if ctx.thorough() else 'NNLO'}; ratios = {'the 38' if ctx.thorough() else 'every fourth of the 38'} monotone triples "
        f"across a matching with matching ratios {RATIOS}, {'NLO and NNLO' if ctx.thorough() else 'NNLO'}; overshoot = "
        f"{'every' if ctx.thorough() else 'every eighth (without the ratios) and every eighth shifted by four (with the ratios)'} ordered triple of the lattice "
        f"whose intermediate nf lies outside the end points' nf, NNLO{' without and with the ratios, and NLO' if ctx.thorough() else ''}; roundtrip = every "
        f"p0 -> p1 -> p0 of {'the lattice, NNLO and NLO, and NNLO with the ratios where it leaves its patch' if ctx.thorough() else str(ONE_PER_PATCH) + ', NNLO'}; "
        f"shortleg = a first or last leg of {'+-' if ctx.thorough() else '+'}0.4 % in mu (coupling change below 1e-4) for "
        f"{'every ordered pair of lattice points' if ctx.thorough() else 'three pairs of lattice points'}, NLO{' and NNLO' if ctx.thorough() else ' (every second also NNLO)'}; "
        "x space: real solves on 15/25-point grids applied to the Les Houches toy PDFs; non-trivial = solved"
    )
    ctx.assumptions += [
        "only the iterated exact method is held to composition (the property restricts itself to exact methods with many iterations)",
        "downward legs use the exact inverse matching, so that a split through a lower nf composes with the direct path",
        "overshoot / roundtrip triples read 'the same flavour path' as 'the same end points (scale, nf)': the excursion into the neighbouring patch "
        "must cancel, which holds to the accuracy of the solution method because inversion='exact' promises the matrix inverse of the forward matching; "
        "the expanded inversion is not held to it (it composes only up to higher orders, by design)",
        f"moment seam: bound {TIGHT} (the 1e-3 of the statement is the x-space tolerance; measured maximum 5.9e-6 at 15/30 iterations, 1.7e-6 at 30/60) and a decrease by "
        f"at least the factor {RATE} when the iterations double (measured 0.2500: second-order discretisation)",
    ]
