"""C06 split-path evolutions compose consistently (X-conf, S2 + S3).

(i) Moment seam: for every admissible scale triple (mu0, mu1, mu2) on a lattice inside patches and
across matching scales (including "down then up" inside a patch), E(mu2<-mu1) E(mu1<-mu0) is
compared with E(mu2<-mu0) along the same flavour path, exact solution method with n and 2n
iterations: relative distance <= 1e-3 and not growing when the iterations double (non-singlet
channels: exact composition, 1e-11).
(ii) x space, no stubs: the same comparison applied to toy PDFs on 15- and 25-point grids on
[1e-2, 1]: <= 1e-3 on the 25-point grid and smaller than on the 15-point grid.
"""

import itertools

import numpy as np

from vf.core import cards, probe
from vf.core.ctx import Result

ID = "C06"
LEVEL = "exploration"
TECHNIQUE = "exhaustive enumeration of scale triples x orders x iteration counts through the real runner (Mellin moments) + un-stubbed x-space solves on two grids; composition oracle"
LEVEL_TEXT = (
    "all ordered scale triples of a 6-point (scale, nf) lattice whose split path follows the direct flavour path, at LO/NLO/NNLO, are solved "
    "directly and in two steps; the two results must agree to the accuracy of the iterated exact method and improve with it"
)
LEVEL_NOTE = "scales restricted to the lattice; iterate-exact only (the approximate methods do not compose by design); x-space part: two grids, few cards"
FLOOR_NONTRIVIAL = 40

PID = probe.FLAVOR_PIDS
M = [2.0, 4.5, 100.0]
POINTS = [(1.5, 3), (2.5, 4), (3.5, 4), (4.2, 4), (6.0, 5), (10.0, 5)]
MOMENTS = [2.0, 3.5, 6.0]


def admissible(p0, p1, p2):
    """The split path must follow the direct one: nf1 between nf0 and nf2."""
    return min(p0[1], p2[1]) <= p1[1] <= max(p0[1], p2[1])


def _cfg(order, its, init, targets, extra=None):
    c = dict(
        order=order,
        method="iterate-exact",
        masses=M,
        init=list(init),
        mugrid=[list(t) for t in targets],
        iterations=its,
        inversion="exact",
    )
    c.update(extra or {})
    return c


def _dist_moments(order, its, p0, p1, p2, extra):
    a = probe.moment_solve(_cfg(order, its, p0, [p1, p2], extra), MOMENTS)
    b = probe.moment_solve(_cfg(order, its, p1, [p2], extra), MOMENTS)
    e1 = a[(p1[0] ** 2, p1[1])]
    e2d = a[(p2[0] ** 2, p2[1])]
    (k, e21), = b.items()
    comp = np.einsum("mab,mbc->mac", e21, e1)
    d_full = float(np.abs(comp - e2d).max() / np.abs(e2d).max())
    # valence-like channel u - ubar (pure non-singlet): composes exactly
    u, ub = PID.index(2), PID.index(-2)
    ns_c = comp[:, u, u] - comp[:, u, ub]
    ns_d = e2d[:, u, u] - e2d[:, u, ub]
    d_ns = float(np.abs(ns_c - ns_d).max() / np.abs(ns_d).max())
    return d_full, d_ns


def evaluate(case):
    res = Result()
    order = case["order"]
    try:
        if case["seam"] == "s2":
            p0, p1, p2 = [tuple(p) for p in case["triple"]]
            extra = case.get("extra")
            n = case["iterations"]
            d1, ns1 = _dist_moments(order, n, p0, p1, p2, extra)
            d2, ns2 = _dist_moments(order, 2 * n, p0, p1, p2, extra)
            shape = "monotone" if (p0[0] - p1[0]) * (p1[0] - p2[0]) > 0 else "back-and-forth"
            cross = "across" if len({p0[1], p1[1], p2[1]}) > 1 else "inside"
            where = f"order={order} triple={case['triple']} iterations={n}/{2*n} extra={extra}"
            cls = f"order={order[0]}/{shape}/{cross}"
            if not np.isfinite(d2) or d2 > 1e-3:
                res.fail(f"moment/composition/{cls}", f"{where}: |E21 E10 - E20| / |E20| = {d2:.3e} > 1e-3 with {2*n} iterations ({d1:.3e} with {n})")
            elif d2 > d1 * 1.05 and d2 > 1e-9:
                res.fail(f"moment/no-improvement/{cls}", f"{where}: distance {d1:.3e} ({n} iterations) -> {d2:.3e} ({2*n} iterations) does not shrink")
            # at NNLO the valence kernel is not the minus kernel: u-ubar mixes nsV and ns-, both exact
            if max(ns1, ns2) > 1e-10:
                res.fail(f"moment/nonsinglet-composition/{cls}", f"{where}: non-singlet channel composes only to {max(ns1, ns2):.3e}")
            res.info = {"max_dist": d2, "max_ns_dist": max(ns1, ns2), "max_ratio_2n_over_n": d2 / d1 if d1 > 1e-9 else 0.0}
            res.outcome = f"moment:{cls}"
        else:
            p0, p1, p2 = [tuple(p) for p in case["triple"]]
            dists = []
            for npts in (15, 25):
                xg = np.geomspace(1e-2, 1.0, npts).tolist()
                extra = dict(xgrid=xg, degree=3, cores=case.get("cores", 6), ratios=case.get("ratios", [1.0, 1.0, 1.0]), ref=case.get("ref", [91.2, 5]))
                a = cards.solve_ops(_cfg(order, case["iterations"], p0, [p1, p2], extra), tag="c06a")
                b = cards.solve_ops(_cfg(order, case["iterations"], p1, [p2], extra), tag="c06b")
                e1 = a[(p1[0] ** 2, p1[1])][0]
                e2d = a[(p2[0] ** 2, p2[1])][0]
                (k, (e21, _)), = b.items()
                x = np.array(xg)
                f0 = _toy(x)
                split = np.einsum("ajbk,bk->aj", e21, np.einsum("ajbk,bk->aj", e1, f0))
                direct = np.einsum("ajbk,bk->aj", e2d, f0)
                worst = 0.0
                for i, p in enumerate(PID):
                    scale = np.abs(direct[i]).max()
                    if scale > 1e-6:
                        worst = max(worst, float(np.abs(split[i] - direct[i])[:-1].max() / scale))
                dists.append(worst)
            where = f"order={order} triple={case['triple']} grids 15/25: distances {dists}"
            if not np.isfinite(dists[1]) or dists[1] > 1e-3:
                res.fail(f"xspace/composition/order={order[0]}", f"{where}: relative distance on the 25-point grid > 1e-3")
            if dists[1] >= dists[0] and dists[1] > 1e-9:
                res.fail(f"xspace/no-refinement-gain/order={order[0]}", f"{where}: the discrepancy does not shrink under grid refinement")
            res.info = {"max_x_dist_25": dists[1], "max_x_dist_15": dists[0]}
            res.outcome = "xspace"
    except (NotImplementedError, ValueError) as e:
        res.outcome = f"refused:{str(e)[:50]}"
        res.nontrivial = False
    except Exception as e:  # noqa
        import traceback

        res.fail(f"solve/crash/{type(e).__name__}/{case['seam']}", f"{case}: {type(e).__name__}: {str(e)[:200]} {traceback.format_exc()[-400:]}")
    return res


def _toy(x):
    xuv = 5.107200 * x**0.8 * (1 - x) ** 3
    xdv = 3.064320 * x**0.8 * (1 - x) ** 4
    xg = 1.7 * x**-0.1 * (1 - x) ** 5
    xdb = 0.1939875 * x**-0.1 * (1 - x) ** 6
    xub = (1 - x) * xdb
    xs = 0.2 * (xub + xdb)
    out = {21: xg, 2: xuv + xub, -2: xub, 1: xdv + xdb, -1: xdb, 3: xs, -3: xs}
    return np.array([out.get(p, np.zeros_like(x)) for p in PID]) / x


def run(ctx):
    triples = [t for t in itertools.permutations(POINTS, 3) if admissible(*t)]
    cases = []
    xs = [
        dict(seam="s3", order=[1, 0], triple=[[3.0, 4], [5.0, 4], [10.0, 4]], iterations=10, ratios=[1.0, "inf", "inf"], ref=[10.0, 4]),
        dict(seam="s3", order=[2, 0], triple=[[3.0, 4], [2.5, 4], [4.0, 4]], iterations=10),
    ]
    if ctx.thorough():
        xs += [
            dict(seam="s3", order=[1, 0], triple=[[3.0, 4], [4.2, 4], [10.0, 5]], iterations=10),
            dict(seam="s3", order=[2, 0], triple=[[3.0, 4], [6.0, 5], [10.0, 5]], iterations=10),
            dict(seam="s3", order=[3, 0], triple=[[3.0, 4], [3.5, 4], [4.2, 4]], iterations=10),
            dict(seam="s3", order=[2, 0], triple=[[6.0, 5], [3.0, 4], [1.5, 3]], iterations=10),
        ]
    cases += xs
    orders = [[1, 0], [2, 0], [3, 0]]
    for order in orders:
        for t in triples:
            if not ctx.thorough() and order[0] == 3 and (POINTS.index(t[0]) + POINTS.index(t[1]) + POINTS.index(t[2])) % 2:
                continue
            cases.append(dict(seam="s2", order=order, triple=[list(p) for p in t], iterations=15 if not ctx.thorough() else 30))
    if ctx.thorough():
        for t in triples[::3]:
            cases.append(dict(seam="s2", order=[2, 0], triple=[list(p) for p in t], iterations=30, extra=dict(polarized=True)))
            cases.append(dict(seam="s2", order=[2, 0], triple=[list(p) for p in t], iterations=30, extra=dict(time_like=True)))
    ctx.run_cases(cases, evaluate, chunksize=1)
    ctx.extra["admissible_triples"] = len(triples)
    ctx.rule = (
        f"all {len(triples)} ordered triples of the lattice {POINTS} (charm wall at 2, bottom at 4.5) whose intermediate nf lies between the end "
        "points' nf (monotone, back-and-forth, inside a patch and across one or two matchings) x LO/NLO/NNLO, iterate-exact with n and 2n iterations, exact "
        "backward matching; x space: real solves on 15/25-point grids applied to the Les Houches toy PDFs; non-trivial = solved"
    )
    ctx.assumptions += [
        "only the iterated exact method is held to composition (the property restricts itself to exact methods with many iterations)",
        "downward legs use the exact inverse matching, so that a split through a lower nf composes with the direct path",
    ]
