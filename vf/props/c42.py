"""C42 reshaping an operator commutes with applying it.

Flavour part.  For every rotation family {identity, evolution, unified, permutation, diagonal, unimodular
integer} x side {input, output, both} x operator kind x with/without error tensor the rotated operator O' is
required to satisfy, as a *tensor identity* (i.e. for the complete basis of inputs, hence for all inputs),

        O' . (I f) = T . (O f)            <=>   sum_b O'[a,j,b,k] I[b,c] = sum_a' T[a,a'] O[a',j,c,k]

with I / T the rotation of the input / output side (identity on the side that is not rotated).  The evolution
and unified rotations are typed from the documented definitions (vf.ref.c34_bases), and both the named entry
points (to_evol / to_uni_evol) and flavor_reshape with the explicit matrix are exercised.

Grid part.  Operators whose outputs are exactly representable on the operator grid are built as
O[a,j,b,k] = sum_m t(x_j)^m W[m,a,b,k] (m <= degree, W dense deterministic); inputs exactly representable on
the (new) input grid are the monomials t^m' (m' <= degree).  For every (grid, degree, target kind, input kind)

        sum_l O'[a,i,b,l] t(z_l)^m' = sum_m t(y_i)^m sum_k W[m,a,b,k] t(x_k)^m'

must hold at every new node y_i for the new input nodes z_l (y = x resp. z = x on the side that is not
re-interpolated): the evolved values at the new nodes are those of the original operator.  Exact values of
t^m from 50 digit arithmetic; tolerance from the rounding model of C34 (2e-13 + 64 eps cond) times the
operator scale.  Grid families include grids that differ from the operator grid only below x = 1e-7.
A subset of the cases takes the operator from a real EKO archive (EKO.create / EKO.read).
"""

import warnings

import numpy as np

from vf.core import cards
from vf.core.ctx import Result
from vf.ref import c34_bases as B
from vf.ref import c34_grids as G

ID = "C42"
LEVEL = "exploration"
TECHNIQUE = "exhaustive (rotation family x side x operator) and (grid x degree x target grid x input grid) lattices; tensor identities against tensordot references and 50-digit polynomial values"
LEVEL_TEXT = (
    "flavour rotations: the commutation identity is checked as a tensor identity (all inputs at once) for 6 "
    "rotation families + 3 rotations near the identity, 3 sides (both sides also with two different matrices), named "
    "and explicit entry points, operators with/without errors, square or not in x, direct and "
    "through an EKO archive; grid re-interpolation: for polynomial-output operators and polynomial inputs the "
    "evolved values at all new nodes are compared with the exact ones for 9 target and 8 input grid kinds "
    "(alone and paired, incl. grids 5e-6 / 2e-5 (relative) away from the operator grid and new grids of "
    "the other interpolation mode), degrees 1-4 (thorough 1-6), log and linear grids"
)
LEVEL_NOTE = (
    "decides the property on the lattice only; linearity makes the basis of inputs complete; evolution/unified "
    "matrices typed from doc/source/theory/FlavorSpace.rst; error tensors are carried along but their values are "
    "not part of the statement and not judged; grids end at x = 1 and input grids cover the operator grid "
    "(no extrapolation)"
)
FLOOR_NONTRIVIAL = 20

EPS = float(np.finfo(float).eps)
EP = (100.0, 5)
SMALL_X = 1e-7


# ------------------------------------------------------------------------------------------------
# helpers
# ------------------------------------------------------------------------------------------------
def _through_eko(op, err, xgrid, degree):
    """store the operator in a fresh EKO archive, close it, re-open read-only, fetch it back."""
    from eko.io.items import Operator
    from eko.io.struct import EKO

    path = cards.scratch_path("c42")
    try:
        th, oc = cards.build(dict(xgrid=list(xgrid), degree=degree, mugrid=[[10.0, 5]]))
        with EKO.create(path) as b:
            e = b.load_cards(th, oc).build()
            e[EP] = Operator(op.copy(), None if err is None else err.copy())
        with EKO.read(path) as e:
            el = e[EP]
            out = Operator(el.operator.copy(), None if el.error is None else el.error.copy())
            xg = e.xgrid
            deg = e.operator_card.configs.interpolation_polynomial_degree
        return out, xg, deg
    finally:
        try:
            path.unlink()
        except FileNotFoundError:
            pass


# ------------------------------------------------------------------------------------------------
# flavour rotations
# ------------------------------------------------------------------------------------------------
SIDES = {"input": (True, False), "output": (False, True), "both": (True, True)}


# rotations between the identity and the O(1) families: flavor_reshape drops a side that is "close to the
# current basis".  Up to eb464c64 that was np.allclose(pids, eye) with numpy's defaults, i.e.
# |pids - eye| <= 1e-8 + 1e-5 * |eye| entry by entry (now: equal up to rounding).  The members sit inside the
# former absolute band (every entry within 5e-9 of the identity), inside the former relative band (diagonal
# within 5e-6 of 1, off-diagonal exactly 0) and outside of both (entries 2e-5 away): all three must be rotated.
def _near_identity_atol():
    return np.eye(14) + 4e-9 * B.tensor((14, 14), phase=0.7)  # |tensor| <= 1.25


def _near_identity_rtol():
    return np.diag([1.0 + 5e-6 * np.cos(1.0 + i) for i in range(14)])


def _near_identity_outside():
    return np.eye(14) + 1.6e-5 * B.tensor((14, 14), phase=0.7)


NEAR_IDENTITY = {
    "near-identity-atol": _near_identity_atol,
    "near-identity-rtol": _near_identity_rtol,
    "near-identity-outside": _near_identity_outside,
}
ROTATIONS = dict(B.ROTATIONS)
ROTATIONS.update(NEAR_IDENTITY)
BASE_FAMILIES = list(B.ROTATIONS)


def _evaluate_flavor(case):
    from eko.io import manipulate
    from eko.io.items import Operator

    fam, n, with_err, opkind, via = case["family"], case["n"], case["error"], case["opkind"], case["via_eko"]
    nout = case.get("nout", n)  # operators that are not square in x (as left behind by a target-grid reshape)
    res = Result()
    O = B.tensor((14, nout, 14, n), phase=0.3)
    if opkind == "near-identity":
        O = 0.01 * O + np.einsum("ab,jk->ajbk", np.eye(14), np.eye(n))
    err = 0.01 * np.abs(B.tensor((14, nout, 14, n), phase=1.1)) if with_err else None
    grid = G.geometric(n, 1e-3)
    if via:
        elem, _xg, _deg = _through_eko(O, err, grid, 1)
    else:
        elem = Operator(O.copy(), None if err is None else err.copy())
    M = ROTATIONS[fam]()
    eye = np.eye(14)
    info = {"max_rel_dev": 0.0, "checks": 0}
    routes = ["flavor_reshape"]
    if fam == "evolution":
        routes.append("to_evol")
    if fam == "unified":
        routes.append("to_uni_evol")
    # the members inside the "close to the current basis" bands get their own signature (one per band)
    band = f"/{fam}" if fam in ("near-identity-atol", "near-identity-rtol") else ""
    # every call: (signature, label of the side, route, target matrix | None, input matrix | None)
    calls = []
    for side, (src, tgt) in SIDES.items():
        for route in routes:
            calls.append((f"{route}{band}/side={side}", side, route, M if tgt else None, M if src else None))
    if fam in BASE_FAMILIES:
        # both sides in ONE call with two different matrices (the next family on the input side) ...
        nxt = BASE_FAMILIES[(BASE_FAMILIES.index(fam) + 1) % len(BASE_FAMILIES)]
        calls.append(("flavor_reshape/side=both-distinct", f"both(target={fam},input={nxt})", "flavor_reshape", M, ROTATIONS[nxt]()))
        if fam != "identity":
            # ... and with the exact identity on one of the two sides (that side dropped, the other one kept)
            calls.append(("flavor_reshape/side=both-eye-target", "both(target=identity)", "flavor_reshape", eye.copy(), M))
            calls.append(("flavor_reshape/side=both-eye-input", "both(input=identity)", "flavor_reshape", M, eye.copy()))
    for sig, side, route, Tm, Im in calls:
        where = f"family={fam} side={side} route={route} n={n} nout={nout} error={with_err} op={opkind} via_eko={via}"
        try:
            with warnings.catch_warnings():
                warnings.simplefilter("ignore")
                if route == "flavor_reshape":
                    new = manipulate.flavor_reshape(
                        elem, targetpids=None if Tm is None else Tm.copy(), inputpids=None if Im is None else Im.copy()
                    )
                else:
                    new = getattr(manipulate, route)(elem, source=Im is not None, target=Tm is not None)
        except Exception as e:  # noqa
            res.fail(f"{sig}/raises", f"{type(e).__name__}: {e} {where}")
            continue
        Op = np.asarray(new.operator)
        if Op.shape != O.shape:
            res.fail(f"{sig}/shape", f"{where}: shape {Op.shape}")
            continue
        I = eye if Im is None else Im
        T = eye if Tm is None else Tm
        cond = max(float(np.linalg.cond(I)), float(np.linalg.cond(T)), 1.0)
        lhs = np.einsum("ajbk,bc->ajck", Op, I)
        rhs = np.tensordot(T, O, axes=([1], [0]))
        scale = float(np.abs(rhs).max())
        dev = float(np.abs(lhs - rhs).max()) / scale
        tol = 256.0 * EPS * cond * 14
        info["checks"] += 1
        if dev > tol:
            ia = np.unravel_index(int(np.abs(lhs - rhs).argmax()), lhs.shape)
            res.fail(
                sig,
                f"{where}: (O' I)[{ia}] = {lhs[ia]!r} but (T O)[{ia}] = {rhs[ia]!r} (rel. dev {dev:.2e}, tol {tol:.1e})",
            )
        else:  # head-room recorded separately for the members inside the former "close to the current basis" bands
            key = "max_rel_dev_near_identity" if band else "max_rel_dev"
            info[key] = max(info.get(key, 0.0), dev / cond)
        if (new.error is None) != (err is None):
            res.fail(f"{sig}/error-presence", f"{where}: error tensor {'appeared' if err is None else 'lost'}")
        elif err is not None and np.asarray(new.error).shape != O.shape:
            res.fail(f"{sig}/error-shape", f"{where}: error tensor of shape {np.asarray(new.error).shape}")
    res.info = info
    res.nontrivial = fam != "identity"
    res.outcome = f"flavor:{fam}"
    return res


# ------------------------------------------------------------------------------------------------
# grid re-interpolation
# ------------------------------------------------------------------------------------------------
REL_KINDS = {"nodes-rel-5e-6": 5e-6, "nodes-rel-2e-5": 2e-5}
REL_INSIDE = "nodes-rel-5e-6"


def target_kinds(g, is_log):
    foreign = G.geometric if is_log else G.linear  # a foreign grid natural for the interpolation mode
    out = {
        "same": list(g),
        "nodes-1ulp": [G.ulp_up(x) for x in g[:-1]] + [G.ulp_down(g[-1])],
        "midpoints": [(a * b) ** 0.5 for a, b in zip(g, g[1:])],
        "shifted": [a ** 0.7 * b ** 0.3 for a, b in zip(g, g[1:])] + [g[-1]],
        "refined": sorted(set(list(g) + [(a * b) ** 0.5 for a, b in zip(g, g[1:])])),
        "foreign-7": foreign(7, g[0]),
    }
    if g[0] < SMALL_X:
        t = list(g)
        t[0] = min(2.0 * g[0], (g[0] * g[1]) ** 0.5)
        out["small-x"] = t
    # every node moved by a fixed RELATIVE amount (last node stays 1): inside / outside the relative band
    # (rtol 1e-5) in which xgrid_check took the new grid for the current one up to eb464c64
    for name, rel in REL_KINDS.items():
        out[name] = [x * (1.0 + rel) for x in g[:-1]] + [g[-1]]
    return out


def input_kinds(g, degree, is_log):
    foreign = G.geometric if is_log else G.linear
    out = {
        "same": list(g),
        "nodes-1ulp": [G.ulp_down(g[0])] + [G.ulp_up(x) for x in g[1:-1]] + [g[-1]],
        "shifted": [g[0]] + [a ** 0.3 * b ** 0.7 for a, b in zip(g, g[1:-1])] + [g[-1]],
        "refined": sorted(set(list(g) + [(a * b) ** 0.5 for a, b in zip(g, g[1:])])),
        "foreign": foreign(len(g) + 2, g[0]),
    }
    if g[0] < SMALL_X:
        t = list(g)
        t[0] = 0.5 * g[0]
        out["small-x"] = t
    for name, rel in REL_KINDS.items():  # first node down, inner nodes up: still covers the operator grid
        out[name] = [g[0] * (1.0 - rel)] + [x * (1.0 + rel) for x in g[1:-1]] + [g[-1]]
    return {k: v for k, v in out.items() if len(v) > degree and all(b > a for a, b in zip(v, v[1:]))}


PAIRS_BOTH = [
    ("midpoints", "refined"),
    ("shifted", "shifted"),
    ("refined", "foreign"),
    ("same", "refined"),
    ("midpoints", "same"),
    ("small-x", "small-x"),
    ("small-x", "refined"),
    ("midpoints", "small-x"),
    ("nodes-1ulp", "nodes-1ulp"),
    ("nodes-rel-5e-6", "nodes-rel-5e-6"),
    ("nodes-rel-5e-6", "refined"),
    ("midpoints", "nodes-rel-5e-6"),
    ("nodes-rel-2e-5", "nodes-rel-2e-5"),
]
# combos repeated with the interpolation mode (log flag) of ONE of the new grids opposite to the operator
# grid's: (target kind, input kind, which grid is flipped)
FLIPS = [
    (None, "shifted", "input"),  # (a 'refined' input grid contains the operator nodes: blind to the mode)
    (None, "foreign", "input"),
    ("midpoints", "foreign", "input"),
    ("midpoints", None, "target"),
    ("refined", "foreign", "target"),
]


def _evaluate_xgrid(case):
    from eko import interpolation
    from eko.io import manipulate
    from eko.io.items import Operator

    is_log, shape, xmin, n, via = case["log"], case["shape"], case["xmin"], case["n"], case["via_eko"]
    g = G.make(shape, n, xmin)
    res = Result()
    ref = G.PolyRef(g, is_log)
    info = {"max_err_over_tol": 0.0, "max_err_over_tol_logflip": 0.0, "checks": 0, "shortcuts": 0}
    nchecked = 0
    for d in case["degrees"]:
        if n <= d:
            continue
        QX = ref.monomials(g, d)  # [n, d+1]
        W = B.tensor((d + 1, 14, 14, n), phase=0.2 * d)
        O = np.einsum("jm,mabk->ajbk", QX, W)
        err = 0.01 * np.abs(O)
        S = float(np.abs(W).max(axis=(1, 2)).sum())  # sum_m sum_k max_ab |W|
        if via:
            elem, xg, deg = _through_eko(O, err, g, d)
            if deg != d or len(xg) != n:
                res.fail("EKO/cards", f"degree {deg} / grid size {len(xg)} read back, expected {d} / {n}")
                continue
        else:
            elem, xg, deg = Operator(O.copy(), err.copy()), interpolation.XGrid(list(g), log=is_log), d
        condX = G.MonomialCond(g, is_log, d)
        tk, ik = target_kinds(g, is_log), input_kinds(g, d, is_log)
        combos = [(t, None, None) for t in tk] + [(None, i, None) for i in ik]
        combos += [(t, i, None) for t, i in PAIRS_BOTH if t in tk and i in ik]
        combos += [(t, i, f) for t, i, f in FLIPS if (t is None or t in tk) and (i is None or i in ik)]
        plain = {}  # (target kind, input kind) -> bytes of the operator reshaped with unflipped modes
        for tname, iname, flip in combos:
            Y = tk[tname] if tname else None
            Z = ik[iname] if iname else None
            side = "target" if Z is None else ("input" if Y is None else "both")
            tlog = (not is_log) if flip == "target" else is_log
            zlog = (not is_log) if flip == "input" else is_log
            # one signature per (defect class, mode): grids that differ from the operator grid only at very
            # small x form their own class, whichever side they are used on; so do grids that differ from it
            # by a relative amount inside rtol of the "close to the current one" shortcut, and the
            # combos with a grid declared in the other interpolation mode
            near = "small-x" in (tname, iname)
            if near:
                cls = "near-nodes-grid"
            elif REL_INSIDE in (tname, iname):
                cls = "near-nodes-rel"  # one decision (xgrid_check) serves both sides
            elif flip:
                cls = f"{flip}-logflip/side={side}"
            else:
                cls = side
            sig = f"xgrid_reshape/{cls}/log={is_log}"
            where = (
                f"log={is_log} shape={shape} xmin={xmin} n={n} degree={d} target={tname} input={iname} "
                f"flipped-mode={flip} via_eko={via}"
            )
            tgrid = None if Y is None else interpolation.XGrid(list(Y), log=tlog)
            zgrid = None if Z is None else interpolation.XGrid(list(Z), log=zlog)
            try:
                with warnings.catch_warnings(record=True) as wlist:
                    warnings.simplefilter("always")
                    new = manipulate.xgrid_reshape(elem, xg, deg, targetgrid=tgrid, inputgrid=zgrid)
                info["shortcuts"] += sum("close to the current" in str(w.message) for w in wlist)
            except Exception as e:  # noqa
                res.fail(f"{sig}/raises", f"{type(e).__name__}: {e} {where}")
                continue
            Ye = list(g) if Y is None else Y
            Ze = list(g) if Z is None else Z
            Op = np.asarray(new.operator)
            if Op.shape != (14, len(Ye), 14, len(Ze)):
                res.fail(f"{sig}/shape", f"{where}: shape {Op.shape}, expected {(14, len(Ye), 14, len(Ze))}")
                continue
            if flip == "target":
                # the mode declared for the target grid is immaterial (the target nodes are plain points):
                # same numbers as with the unflipped grid, bit by bit
                info["checks"] += 1
                nchecked += 1
                if (tname, iname) not in plain:
                    res.fail(f"{sig}/no-partner", f"{where}: unflipped partner combo failed")
                elif plain[(tname, iname)] != Op.tobytes():
                    res.fail(sig, f"{where}: the operator depends on the log flag of the target grid")
                continue
            if flip is None:
                plain[(tname, iname)] = Op.tobytes()
            QY = ref.monomials(Ye, d)
            if flip == "input":
                # inputs exactly representable on an input grid of the other mode are the monomials of THAT mode
                refin = G.PolyRef(Ze, zlog)
                QZ = refin.monomials(Ze, d)
                QXin = refin.monomials(g, d)
            else:
                QZ = ref.monomials(Ze, d)
                QXin = QX
            lhs = np.einsum("aibl,lp->aibp", Op, QZ)
            inner = np.einsum("mabk,kp->mabp", W, QXin)
            rhs = np.einsum("im,mabp->aibp", QY, inner)
            # rounding model (see C34): target side cond of the operator grid at y_i, input side cond of the
            # new input grid at the operator nodes
            cy = np.array([condX(y) for y in Ye]) if Y is not None else np.ones(len(Ye))
            cz = max(G.MonomialCond(Z, zlog, d)(x) for x in g) if Z is not None else 1.0
            tol = S * (2e-13 + 64.0 * EPS * (cy + cz)) * max(1.0, float(np.abs(QZ).max()))
            dev = np.abs(lhs - rhs).max(axis=(0, 2, 3))
            r = dev / tol
            i = int(r.argmax())
            info["checks"] += 1
            nchecked += 1
            if r[i] > 1.0:
                ia = np.unravel_index(int(np.abs(lhs - rhs)[:, i].argmax()), lhs[:, i].shape)
                res.fail(
                    sig,
                    f"{where}: evolved value of input t^{ia[2]} (flavour {ia[1]}) at new node y_{i}={Ye[i]!r}, output flavour "
                    f"{ia[0]}: reshaped operator gives {lhs[ia[0], i, ia[1], ia[2]]!r}, original operator gives "
                    f"{rhs[ia[0], i, ia[1], ia[2]]!r} (tol {tol[i]:.2e}; first nodes: operator {g[0]!r}, target {Ye[0]!r}, input {Ze[0]!r})",
                )
            else:  # head-room recorded per class
                key = "max_err_over_tol" + ("_near_nodes_rel" if cls == "near-nodes-rel" else "_logflip" if flip else "")
                info[key] = max(info.get(key, 0.0), float(r[i]))
            if (new.error is None) or np.asarray(new.error).shape != Op.shape:
                res.fail(f"{sig}/error-shape", f"{where}: error tensor missing or of different shape")
            if not via and d == case["degrees"][0]:
                # the same reshape of the operator stored without an error tensor: same values, still no error tensor
                try:
                    with warnings.catch_warnings():
                        warnings.simplefilter("ignore")
                        new0 = manipulate.xgrid_reshape(Operator(O.copy(), None), xg, deg, targetgrid=tgrid, inputgrid=zgrid)
                    if new0.error is not None:
                        res.fail(f"{sig}/no-error/error-invented", f"{where}: an operator without error tensor got one")
                    if np.asarray(new0.operator).tobytes() != Op.tobytes():
                        res.fail(f"{sig}/no-error/values", f"{where}: operator values depend on the presence of the error tensor (max diff {np.abs(np.asarray(new0.operator) - Op).max():.3e})")
                except Exception as e:  # noqa
                    res.fail(f"{sig}/no-error/raises", f"{type(e).__name__}: {e} {where}")
    res.info = info
    res.nontrivial = nchecked > 0
    res.outcome = f"xgrid:log={is_log},small-x={int(g[0] < SMALL_X)},shortcuts={int(info['shortcuts'] > 0)}"
    return res


def evaluate(case):
    if case["kind"] == "flavor":
        return _evaluate_flavor(case)
    return _evaluate_xgrid(case)


def run(ctx):
    thorough = ctx.thorough()
    cases = []
    # ---- flavour lattice
    for fam in ROTATIONS:
        for n in ([2, 5] if not thorough else [2, 3, 5, 9]):
            for with_err in (False, True):
                for opkind in ("dense", "near-identity"):
                    for via in (False, True):
                        if via and not (n == 5 and opkind == "dense"):
                            continue
                        cases.append(
                            {"kind": "flavor", "family": fam, "n": n, "error": with_err, "opkind": opkind, "via_eko": via}
                        )
        # operators that are not square in x: (14, nout, 14, n)
        for nout, n in ([(3, 5)] if not thorough else [(3, 5), (9, 2), (14, 5), (5, 14)]):
            for with_err in (False, True):
                cases.append(
                    {"kind": "flavor", "family": fam, "n": n, "nout": nout, "error": with_err, "opkind": "dense", "via_eko": False}
                )
    nflav = len(cases)
    # ---- grid lattice
    degrees = [1, 2, 3, 4, 5, 6] if thorough else [1, 2, 3, 4]
    sizes = [3, 5, 8, 12, 20] if thorough else [5, 8, 12]
    glat = [(True, s, x) for s in ("geometric", "loglin", "irregular") for x in (1e-9, 1e-5, 1e-2)]
    glat += [(False, "linear", x) for x in (1e-9, 1e-2)] + [(False, "loglin", 1e-2)]
    if thorough:
        glat += [(True, "lambert", x) for x in (1e-9, 1e-5, 1e-2)] + [(True, s, 1e-8) for s in ("geometric", "irregular")]
    for is_log, shape, xmin in glat:
        for n in sizes:
            if G.make(shape, n, xmin) is None:
                continue
            for via in (False, True):
                if via and not (is_log and shape == "geometric" and n in (5, 8)):
                    continue
                cases.append(
                    {"kind": "xgrid", "log": is_log, "shape": shape, "xmin": xmin, "n": n, "degrees": degrees, "via_eko": via}
                )
    results = ctx.run_cases(cases, evaluate)
    nchecks = sum((r[1][3] or {}).get("checks", 0) for r in results)
    ctx.rule = (
        f"flavour: complete product of {len(ROTATIONS)} rotation families (6 + 3 near the identity: every entry within 5e-9, "
        "diagonal within 5e-6 relative, entries 2e-5 away) x sizes x error yes/no x 2 "
        f"operator kinds (+ EKO-archive route, + operators not square in x) = {nflav} cases, each with 3 sides and every "
        "entry point (flavor_reshape; to_evol / to_uni_evol), and for the 6 base families both sides in one call with two "
        "different matrices (next family on the input side) resp. the exact identity on one side; "
        f"grid: {len(cases) - nflav} (mode, family, x_min, size[, EKO route]) cases x degrees {degrees} x "
        "(9 target kinds + 8 input kinds + 13 pairs + 5 combos with the log flag of one new grid flipped; 'small-x' kinds "
        "only where nodes below 1e-7 exist; 'nodes-rel' kinds move every node by 5e-6 resp. 2e-5 relative); "
        f"{nchecks} tensor identities checked; non-trivial = a non-identity rotation / at least one admissible degree"
    )
    ctx.assumptions += [
        "the input basis (unit vectors resp. monomials up to the degree) is complete by linearity",
        "tolerance flavour: 256*eps*cond(rotation)*14 relative; grid: operator scale x (2e-13 + 64 eps cond), cond as in C34",
        "input grids cover [x_min, 1] of the operator grid (the 'small-x' input grid moves the first node down, the "
        "'small-x' target grid moves it up); no extrapolation is demanded",
        "error tensors: only presence/shape are checked",
        "no tolerance is granted to a new grid / basis that is merely CLOSE to the current one: the values at the new "
        "nodes / in the new basis are demanded to rounding accuracy ('near-identity-*', 'nodes-rel-*', 'nodes-1ulp')",
        "input grid of the other interpolation mode: the exactly representable inputs are the monomials of that mode; "
        "the mode declared for a target grid is immaterial (bitwise equal operator demanded)",
    ]
