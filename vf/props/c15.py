"""C15 running couplings solve their renormalisation group equations (inside one fixed-nf patch).

kind "rge"    lattice of (order, em_running, nf, alpha_s(ref), alpha_em(ref), mu_ref) x 10 target scales
              (incl. the reference scale itself, m_tau exactly and both sides of it):
                * exact method == mpmath solution of the truncated coupled RGE (independent beta table)
                * a(mu_ref) == alpha/(4 pi) for both methods
                * the expanded method returns finite numbers wherever the reference is perturbative
                * a_s decreases strictly along the sorted targets (both methods, perturbative range)
kind "slope"  expanded vs (reference) exact under scaling of the couplings lambda = 2^-k at fixed
              ln(mu^2/mu_ref^2): the relative difference must vanish at least like lambda^(n+1)
              (n = QCD order; terms through a^(n+1) are fixed by beta_0..beta_(n-1)), and like lambda^2
              when alpha_em runs ("beyond second order in the couplings").
"""

import itertools
import math

from vf.core.ctx import Result

ID = "C15"
LEVEL = "exploration"
TECHNIQUE = "complete input lattice vs mpmath RGE solutions (quadrature/Newton and Taylor-series ODE), scaling-exponent test"
LEVEL_TEXT = (
    "the exact and expanded coupling solutions are compared on the complete product lattice of orders, "
    "running modes, nf, reference values and target scales with independent high-precision solutions of the "
    "truncated RGEs; order-of-accuracy of the expanded solutions is decided by measured scaling exponents"
)
LEVEL_NOTE = (
    "decides the property on the lattice only; trusts the literature beta table (C20 cross-checks) and "
    "mpmath; m_tau = 1.777 GeV taken as input convention; the truncation rule of the coupled RGE is the one "
    "of the eko.beta docstring"
)
FLOOR_NONTRIVIAL = 20

TARGETS = [1.5, 1.777, 1.9, 2.0, 3.0, 10.0, 50.0, 91.2, 200.0, 1000.0]
ALPHAS_MAX = 0.5  # perturbative range for the comparisons
ORDERS = [[n, m] for n in (1, 2, 3, 4) for m in (0, 1, 2)]
TOL_EXACT = 1e-5
FLOOR = 1e-14
NLAMBDA = 11


def _ulp(x):
    return math.ulp(x)


def _eval_rge(case):
    import warnings

    import mpmath as mp
    import numpy as np

    from vf.ref import c15_rge as R
    from vf.ref.c15_mk import ffns_couplings

    order, running, nf = tuple(case["order"]), case["running"], case["nf"]
    alphas, alphaem, mu_ref = case["alphas"], case["alphaem"], case["mu_ref"]
    res = Result()
    amax = ALPHAS_MAX / (4 * math.pi)
    ref = R.Reference(order, running, nf, alphas, alphaem, mu_ref, amax=amax)
    swept = R.sweep(ref, [mu**2 for mu in TARGETS])
    refs = {mu: swept[mu**2] for mu in TARGETS}
    where0 = f"order={order} em_running={running} nf={nf} alphas={alphas} alphaem={alphaem} mu_ref={mu_ref}"
    path = "alphaem_running" if running else "fixed_alphaem"
    mx = {"max_rel_dev_exact_as": 0.0, "max_rel_dev_exact_aem": 0.0, "max_ulp_refpoint": 0.0}
    nperturb = 0
    nonfinite = 0
    with warnings.catch_warnings():
        warnings.simplefilter("ignore")
        for method in ("exact", "expanded"):
            try:
                c = ffns_couplings(order, running, method, nf, alphas, alphaem, mu_ref)
            except Exception as e:  # noqa
                res.fail(f"Couplings/raises/{method}", f"{where0}: {type(e).__name__}: {e}")
                continue
            seq = []
            for mu in TARGETS:
                where = f"{where0} method={method} mu={mu}"
                try:
                    got = np.array(c.a(mu**2, nf), dtype=float)
                except Exception as e:  # noqa
                    res.fail(f"Couplings.a/raises/{method}", f"{where}: {type(e).__name__}: {e}")
                    continue
                if mu == mu_ref:
                    want = np.array([alphas, alphaem]) / (4 * math.pi)
                    d = max(abs(got[i] - want[i]) / _ulp(want[i]) for i in (0, 1)) if np.all(np.isfinite(got)) else math.inf
                    mx["max_ulp_refpoint"] = max(mx["max_ulp_refpoint"], d)
                    if not d <= 2:
                        res.fail(
                            f"Couplings.a/ref-point/{method}",
                            f"{where}: a(mu_ref) = {got.tolist()} but alpha/(4 pi) = {want.tolist()}",
                        )
                r = refs[mu]
                if r is None:
                    continue
                nperturb += 1
                if not np.all(np.isfinite(got)):
                    nonfinite += 1
                    res.fail(
                        f"couplings_expanded_{path}/non-finite" if method == "expanded" else f"Couplings.compute_exact_{path}/non-finite",
                        f"{where}: returned {got.tolist()} while the RGE solution is perturbative "
                        f"(a_s = {mp.nstr(r[0], 8)}, a_em = {mp.nstr(r[1], 8)})",
                    )
                    continue
                if method == "exact":
                    for i, nm in ((0, "as"), (1, "aem")):
                        dev = abs(float(mp.mpf(float(got[i])) / r[i] - 1))
                        mx[f"max_rel_dev_exact_{nm}"] = max(mx[f"max_rel_dev_exact_{nm}"], dev)
                        if not dev <= TOL_EXACT:
                            res.fail(
                                f"Couplings.compute_exact_{path}/" + (f"a_s/qcd={order[0]}" if i == 0 else "a_em"),
                                f"{where}: exact a_{'s' if i == 0 else 'em'} = {got[i]!r}, RGE solution "
                                f"{mp.nstr(r[i], 15)} (relative deviation {dev:.3e} > {TOL_EXACT})",
                            )
                seq.append((mu, float(got[0])))
            # monotone decrease with the scale in the perturbative range
            for (m0, a0), (m1, a1) in zip(seq, seq[1:]):
                if not a1 < a0:
                    res.fail(
                        f"Couplings.a/monotone/{method}/running={running}",
                        f"{where0} method={method}: a_s({m0}) = {a0!r} <= a_s({m1}) = {a1!r}",
                    )
    res.info = dict(mx, perturbative_points=nperturb)
    res.nontrivial = nperturb > 2
    res.outcome = f"rge/{path}/nonfinite={nonfinite > 0}"
    return res


def _eval_slope(case):
    import warnings

    import mpmath as mp
    import numpy as np

    from vf.ref import c15_rge as R
    from vf.ref.c15_mk import ffns_couplings

    order, running, nf = tuple(case["order"]), case["running"], case["nf"]
    alphas, alphaem, mu_ref, L = case["alphas"], case["alphaem"], case["mu_ref"], case["L"]
    coupled = running and order[1] >= 1
    res = Result()
    mu2 = mu_ref**2 * math.exp(L)
    rs = []
    where0 = f"order={order} em_running={running} nf={nf} alphas={alphas} alphaem={alphaem} mu_ref={mu_ref} L={L}"
    with warnings.catch_warnings():
        warnings.simplefilter("ignore")
        for k in range(NLAMBDA):
            lam = 2.0**-k
            als = alphas * lam
            ale = alphaem * lam if coupled else alphaem
            ref = R.Reference(order, running, nf, als, ale, mu_ref).at(mp.mpf(mu2))  # the very float scale handed to eko
            if ref is None:
                rs.append(None)
                continue
            try:
                c = ffns_couplings(order, running, "expanded", nf, als, ale, mu_ref)
                got = np.array(c.a(mu2, nf), dtype=float)
            except Exception as e:  # noqa
                res.fail("Couplings.a/raises/expanded", f"{where0} lambda=2^-{k}: {type(e).__name__}: {e}")
                return res
            if not np.all(np.isfinite(got)):
                rs.append(None)
                continue
            rs.append(tuple(abs(float(mp.mpf(float(got[i])) / ref[i] - 1)) for i in (0, 1)))
    n = order[0]
    demand = 2.0 if coupled else float(n + 1)
    thr = demand - 0.25
    info = {}
    trivial = True
    inconclusive = False
    for i, nm in ((0, "a_s"), (1, "a_em")):
        if i == 1 and not coupled:
            continue
        seq = [(k, r[i]) for k, r in enumerate(rs) if r is not None and r[i] >= FLOOR]
        exps = [
            (k1, math.log2(r0 / r1))
            for (k0, r0), (k1, r1) in zip(seq, seq[1:])
            if k1 == k0 + 1
        ]
        if len(exps) < 2:
            # the two solutions agree to rounding (LO: identical formulas) or leave the float range at once
            continue
        # asymptotic window: the pair of consecutive local exponents at the smallest couplings that agree to
        # 0.15 (a sign change of the difference shows up as one very large and one very small exponent and
        # is stepped over); without such a pair the case is inconclusive
        last = None
        for j in range(len(exps) - 1, 0, -1):
            if exps[j][0] == exps[j - 1][0] + 1 and abs(exps[j][1] - exps[j - 1][1]) <= 0.15:
                last = [exps[j - 1][1], exps[j][1]]
                break
        if last is None:
            inconclusive = True
            continue
        trivial = False
        # judged on the exponent at the smallest couplings of that pair (the local exponent may approach its
        # limit from below after a sign change of the difference)
        if last[-1] >= thr:
            info[f"min_exponent_margin_{nm}"] = last[-1] - demand
        if last[-1] < thr:
            res.fail(
                f"expanded_vs_exact/running/{nm}" if coupled else f"expanded_vs_exact/qcd={n}/{nm}",
                f"{where0}: relative difference expanded-exact for lambda=2^-k: "
                f"{[None if r is None else float('%.3e' % r[i]) for r in rs]}; local exponents "
                f"{[round(e, 2) for _, e in exps]}; the asymptotic pair is {[round(e, 2) for e in last]}, its last member must be >= {thr} "
                f"(difference must be of relative order lambda^{demand:g})",
            )
    margins = [v for k, v in info.items() if k.startswith("min_exponent_margin") and v is not None]
    res.info = {"max_exponent_shortfall_of_passing_cases_vs_integer_demand": max([-m for m in margins], default=-99.0), "residuals": [None if r is None else list(r) for r in rs]}
    res.nontrivial = not trivial
    res.outcome = f"slope/{'coupled' if coupled else 'qcd=%d' % n}/{'inconclusive' if inconclusive else 'trivial' if trivial else 'measured'}"
    return res


def evaluate(case):
    return {"rge": _eval_rge, "slope": _eval_slope}[case["kind"]](case)


def run(ctx):
    thorough = ctx.thorough()
    cases = []
    nfs = [3, 4, 5, 6]
    for order, running, nf in itertools.product(ORDERS, [False, True], nfs):
        coupled = running and order[1] >= 1
        if thorough and not coupled:
            pts = list(itertools.product([0.08, 0.118, 0.2, 0.35], [2.0, 10.0, 91.2, 200.0]))
        elif thorough:
            pts = list(itertools.product([0.118, 0.35], [2.0, 91.2]))
        else:
            pts = [(0.118, 91.2), (0.35, 2.0)]
        if order[1] == 0:
            aems = [0.0075]
        else:
            aems = [0.001, 0.0075, 0.01] if thorough else [0.0075]
        for (a, r), e in itertools.product(pts, aems):
            cases.append({"kind": "rge", "order": order, "running": running, "nf": nf, "alphas": a, "alphaem": e, "mu_ref": r})
    for order, running in itertools.product(ORDERS, [False, True]):
        coupled = running and order[1] >= 1
        for nf in nfs if thorough else ([4] if coupled else [4, 6]):
            for a in [0.2, 0.35] if thorough else [0.35]:
                for L in [-1.0, 0.5, 3.0] if thorough else [-1.0, 3.0]:
                    cases.append({"kind": "slope", "order": order, "running": running, "nf": nf, "alphas": a, "alphaem": 0.01, "mu_ref": 2.0, "L": L})
    ctx.run_cases(cases, evaluate, chunksize=1)
    ctx.rule = (
        "rge: complete product of 12 orders (QCD 1-4 x QED 0-2) x em_running on/off x nf 3-6 x alpha_s(ref) x mu_ref x "
        "alpha_em (quick: (alpha_s, mu_ref) in {(0.118,91.2),(0.35,2)}, alpha_em 0.0075; thorough: alpha_s in "
        "{0.08,0.118,0.2,0.35}, mu_ref in {2,10,91.2,200}, alpha_em in {0.001,0.0075,0.01}; the coupled-running "
        "configurations use alpha_s in {0.118,0.35} x mu_ref in {2,91.2}), each case evaluating exact and expanded method at 10 target "
        "scales (1.5 ... 1000 GeV, incl. mu_ref, m_tau exactly, 1.9 GeV just above it); slope: 12 orders x running x nf x "
        "alpha_s x ln(mu^2/mu_ref^2) in {-1,0.5,3}, 11 scalings lambda=2^-k each. non-trivial = at least 3 perturbative "
        "targets (rge) / two measured exponents (slope)"
    )
    ctx.assumptions += [
        "truncated coupled RGE as defined in vf/ref/c15_rge.py (QCD terms (j,k) with j<=n+1,k<=m; QED terms j<=n,k<=m+1; known coefficients only)",
        "comparisons restricted to targets where the reference has alpha_s <= 0.5 (perturbative range)",
        "exact method: 1e-5 relative (the implementation asks its ODE solver for rtol 1e-6)",
        "expanded vs exact: fixed-order counting at fixed ln(mu^2/mu_ref^2): relative difference O(lambda^(n+1)); "
        "O(lambda^2) when alpha_em runs; the pair of consecutive local exponents at the smallest couplings that agree to 0.15 is the asymptotic window; its last member must be >= demand-0.25, residuals below 1e-14 skipped, 11 scalings",
        "number of leptons 2 for mu^2 <= m_tau^2 = 1.777^2, else 3",
    ]
