"""C15 running couplings solve their renormalisation group equations (inside one fixed-nf patch).

kind "rge"    lattice of (order, em_running, nf, alpha_s(ref), alpha_em(ref), mu_ref) x 16+ target scales
              (the reference scale itself, six scales next to it (mu_ref^2 (1 +- 1e-10), (1 +- 1e-7), (1 +- 3e-4):
              only a segment of zero length up to rounding, 1e-14, may be skipped), m_tau exactly and both sides of it):
                * exact method == mpmath solution of the truncated coupled RGE (independent beta table)
                * a(mu_ref) == alpha/(4 pi) for both methods
                * the expanded method returns finite numbers wherever the reference is perturbative
                * a_s decreases strictly along the sorted targets (both methods, perturbative range)
                * next to the reference the change a_s(mu) - a_s(mu_ref) equals the change of the RGE solution
                  (both methods: a frozen or snapped coupling is 100 % off)
                * the wrappers a_s / a_em return the components of a
kind "slope"  expanded vs (reference) exact under scaling of the couplings lambda = 2^-k at fixed
              ln(mu^2/mu_ref^2): the relative difference must vanish at least like lambda^(n+1)
              (n = QCD order; terms through a^(n+1) are fixed by beta_0..beta_(n-1)), and like lambda^2
              when alpha_em runs ("beyond second order in the couplings").  Second oracle when alpha_em runs
              (own signature .../third-order-terms): every coefficient of the working order (beta_0^2, beta_1,
              the two mixed ones, the NLO QED one) enters a_s / a_em at third order in the couplings, both
              methods contain them, so the relative difference must vanish like lambda^3.
              The recorded defect of expanded_n3lo (relative lambda^4 instead of lambda^5) is pinned: exponent
              >= 3.75 and lim (expanded - exact)/a0^5 == beta_3 (1 - 1/beta_0) ln(mu^2/mu_ref^2) (the -b_3 L term
              carries beta_3/beta_0 where beta_3 belongs); anything else in that entry is .../beyond-known.
"""

import itertools
import math

from vf.core.ctx import Result

ID = "C15"
LEVEL = "exploration"
TECHNIQUE = "complete input lattice vs mpmath RGE solutions (quadrature/Newton and Taylor-series ODE), scaling-exponent test"
LEVEL_TEXT = (
    "the exact and expanded coupling solutions are compared on the complete product lattice of orders, "
    "running modes, nf, reference values and target scales with independent high-precision solutions of the "
    "truncated RGEs; order-of-accuracy of the expanded solutions is decided by measured scaling exponents (the recorded "
    "O(a^5) defect of the N3LO expanded solution is pinned to its leading coefficient)"
)
LEVEL_NOTE = (
    "decides the property on the lattice only; trusts the literature beta table (C20 cross-checks) and "
    "mpmath; m_tau = 1.777 GeV taken as input convention; the truncation rule of the coupled RGE is the one "
    "of the eko.beta docstring"
)
FLOOR_NONTRIVIAL = 20

TARGETS = [1.5, 1.777, 1.9, 2.0, 3.0, 10.0, 50.0, 91.2, 200.0, 1000.0]
ALPHAS_MAX = 0.5  # perturbative range for the comparisons
ORDERS = [[n, m] for n in (1, 2, 3, 4) for m in (0, 1, 2)]
TOL_EXACT = 1e-5
TOL_EXACT_AEM = 1e-8  # alpha_em moves by ~5 % over the whole lattice: 1e-5 on the value would be 2e-4 of the change
FLOOR = 1e-14
NLAMBDA = 11
# squared-scale factors next to the reference: Couplings.a may skip a segment only if it has zero length up to
# rounding (np.isclose with rtol 1e-14); every one of these is an ordinary evolution
NEAR_REF = [1 - 3e-4, 1 - 1e-7, 1 - 1e-10, 1 + 1e-10, 1 + 1e-7, 1 + 3e-4]
TOL_NEAR_CHANGE = 0.1
TOL_NEAR_CHANGE_N3LO_EXPANDED = 0.25  # the recorded defect of expanded_n3lo shows here as beta_3 (1 - 1/beta_0) a^3 / beta_0 <= 2 %
WRAPPER_TARGET = 10.0
PIN_N3LO_EXPONENT = 3.75
PIN_N3LO_COEFF = 2e-2  # measured maximum 1.1e-3 (thorough), 6.9e-4 (quick)
COUPLED_THIRD_ORDER = 3.0


def _ulp(x):
    return math.ulp(x)


def _targets(mu_ref):
    """[(mu or None, mu2, near_factor or None)] sorted by mu2: the fixed targets, the reference itself, its neighbours."""
    mus = sorted(set(TARGETS) | {mu_ref})
    out = [(mu, mu**2, None) for mu in mus]
    out += [(None, mu_ref**2 * f, f) for f in NEAR_REF]
    out.sort(key=lambda t: t[1])
    return out


def _eval_rge(case):
    import warnings

    import mpmath as mp
    import numpy as np

    from vf.ref import c15_rge as R
    from vf.ref.c15_mk import ffns_couplings

    order, running, nf = tuple(case["order"]), case["running"], case["nf"]
    alphas, alphaem, mu_ref = case["alphas"], case["alphaem"], case["mu_ref"]
    res = Result()
    amax = ALPHAS_MAX / (4 * math.pi)
    ref = R.Reference(order, running, nf, alphas, alphaem, mu_ref, amax=amax)
    targets = _targets(mu_ref)
    swept = R.sweep(ref, [t[1] for t in targets])
    where0 = f"order={order} em_running={running} nf={nf} alphas={alphas} alphaem={alphaem} mu_ref={mu_ref}"
    path = "alphaem_running" if running else "fixed_alphaem"
    mx = {"max_rel_dev_exact_as": 0.0, "max_rel_dev_exact_aem": 0.0, "max_ulp_refpoint": 0.0, "max_rel_dev_change_near_ref": 0.0}
    nperturb = 0
    nonfinite = 0
    a0 = mp.mpf(alphas) / (4 * mp.pi)
    with warnings.catch_warnings():
        warnings.simplefilter("ignore")
        for method in ("exact", "expanded"):
            try:
                c = ffns_couplings(order, running, method, nf, alphas, alphaem, mu_ref)
            except Exception as e:  # noqa
                res.fail(f"Couplings/raises/{method}", f"{where0}: {type(e).__name__}: {e}")
                continue
            seq = []
            for mu, mu2, near in targets:
                where = f"{where0} method={method} " + (f"mu={mu}" if near is None else f"mu2=mu_ref^2*{near!r}")
                try:
                    got = np.array(c.a(mu2, nf), dtype=float)
                except Exception as e:  # noqa
                    res.fail(f"Couplings.a/raises/{method}", f"{where}: {type(e).__name__}: {e}")
                    continue
                if mu == mu_ref:
                    want = np.array([alphas, alphaem]) / (4 * math.pi)
                    d = max(abs(got[i] - want[i]) / _ulp(want[i]) for i in (0, 1)) if np.all(np.isfinite(got)) else math.inf
                    mx["max_ulp_refpoint"] = max(mx["max_ulp_refpoint"], d)
                    if not d <= 2:
                        res.fail(
                            f"Couplings.a/ref-point/{method}",
                            f"{where}: a(mu_ref) = {got.tolist()} but alpha/(4 pi) = {want.tolist()}",
                        )
                if mu == WRAPPER_TARGET:
                    # the two scalar wrappers must hand out the components of a (bit for bit)
                    try:
                        w_s, w_em = c.a_s(mu2, nf), c.a_em(mu2, nf)
                    except Exception as e:  # noqa
                        res.fail("Couplings.a_s,a_em/raises", f"{where}: {type(e).__name__}: {e}")
                    else:
                        for nm, w, g in (("a_s", w_s, got[0]), ("a_em", w_em, got[1])):
                            w = float(w)
                            if not (w == g or (math.isnan(w) and math.isnan(g))):
                                res.fail(f"Couplings.{nm}/component", f"{where}: {nm}() = {w!r} but a() has {g!r} in that slot (a() = {got.tolist()})")
                r = swept[mu2]
                if r is None:
                    continue
                nperturb += 1
                if not np.all(np.isfinite(got)):
                    nonfinite += 1
                    res.fail(
                        f"couplings_expanded_{path}/non-finite" if method == "expanded" else f"Couplings.compute_exact_{path}/non-finite",
                        f"{where}: returned {got.tolist()} while the RGE solution is perturbative "
                        f"(a_s = {mp.nstr(r[0], 8)}, a_em = {mp.nstr(r[1], 8)})",
                    )
                    continue
                if method == "exact":
                    for i, nm in ((0, "as"), (1, "aem")):
                        dev = abs(float(mp.mpf(float(got[i])) / r[i] - 1))
                        mx[f"max_rel_dev_exact_{nm}"] = max(mx[f"max_rel_dev_exact_{nm}"], dev)
                        if not dev <= TOL_EXACT:
                            res.fail(
                                f"Couplings.compute_exact_{path}/" + (f"a_s/qcd={order[0]}" if i == 0 else "a_em"),
                                f"{where}: exact a_{'s' if i == 0 else 'em'} = {got[i]!r}, RGE solution "
                                f"{mp.nstr(r[i], 15)} (relative deviation {dev:.3e} > {TOL_EXACT})",
                            )
                        elif i == 1 and not dev <= TOL_EXACT_AEM:
                            res.fail(
                                f"Couplings.compute_exact_{path}/a_em/tight",
                                f"{where}: exact a_em = {got[i]!r}, RGE solution {mp.nstr(r[i], 15)} "
                                f"(relative deviation {dev:.3e} > {TOL_EXACT_AEM})",
                            )
                if near is not None:
                    # next to the reference (not equal to it): the coupling must have moved as the RGE says
                    want_change = r[0] - a0
                    dev = abs(float(((mp.mpf(float(got[0])) - a0) - want_change) / want_change))
                    n3lo_exp = method == "expanded" and order[0] == 4
                    key = "max_rel_dev_change_near_ref" + ("_expanded_n3lo" if n3lo_exp else "")
                    mx[key] = max(mx.get(key, 0.0), dev)
                    tol_near = TOL_NEAR_CHANGE_N3LO_EXPANDED if n3lo_exp else TOL_NEAR_CHANGE
                    if not dev <= tol_near:
                        res.fail(
                            f"Couplings.a/near-reference/{method}",
                            f"{where}: a_s - a_s(mu_ref) = {float(mp.mpf(float(got[0])) - a0)!r} but the RGE solution "
                            f"moves by {float(want_change)!r} (relative deviation {dev:.3e} > {tol_near}): "
                            "only a segment of zero length up to rounding (1e-14) may be skipped",
                        )
                seq.append((mu if near is None else f"mu_ref*sqrt({near!r})", float(got[0])))
            # monotone decrease with the scale in the perturbative range
            for (m0, a0_), (m1, a1) in zip(seq, seq[1:]):
                if not a1 < a0_:
                    res.fail(
                        f"Couplings.a/monotone/{method}/running={running}",
                        f"{where0} method={method}: a_s({m0}) = {a0_!r} <= a_s({m1}) = {a1!r}",
                    )
    res.info = dict(mx, perturbative_points=nperturb)
    res.nontrivial = nperturb > 2
    res.outcome = f"rge/{path}/nonfinite={nonfinite > 0}"
    return res


def _pin_n3lo(order, nf, alphaem, mu_ref, mu2, rs, d5, exponent):
    """Model of the recorded defect of couplings.expanded_n3lo: the term -b_3 L a^5 carries beta_3/beta_0 instead of
    beta_3 (normalised coefficients fed into a formula written for unnormalised ones), everything else at a^5 is right:
        lim_{a0->0} (expanded - exact) / a0^5 = beta_3 (1 - 1/beta_0) ln(mu^2/mu_ref^2),   exponent 4.
    (beta_0 includes a_em beta_qcd(2,1) when the QED order is >= 1: alpha_em is fixed and not scaled here.)"""
    import mpmath as mp

    from vf.ref import c20_tables as tab

    b0 = tab.beta_qcd((2, 0), nf)
    if order[1] >= 1:
        b0 = b0 + mp.mpf(alphaem) / (4 * mp.pi) * tab.beta_qcd((2, 1), nf)
    model = float(tab.beta_qcd((5, 0), nf) * (1 - 1 / b0) * mp.log(mp.mpf(mu2) / mp.mpf(mu_ref) ** 2))
    # Richardson pair (k, k+1) at the smallest couplings whose residual is still >= 1e-11 (rounding <= 1e-5 of it)
    pair = None
    for k in range(len(rs) - 2, 0, -1):
        if all(rs[j] is not None and rs[j][0] >= 1e-11 and j in d5 for j in (k, k + 1)):
            pair = k
            break
    out = {"model": model, "exponent": exponent, "pair": pair, "measured": None, "dev": None, "matches": False}
    if pair is None:
        return out
    measured = 2 * d5[pair + 1] - d5[pair]
    dev = abs(measured / model - 1)
    out.update(measured=measured, dev=dev, matches=bool(exponent >= PIN_N3LO_EXPONENT and dev <= PIN_N3LO_COEFF))
    return out


def _eval_slope(case):
    import warnings

    import mpmath as mp
    import numpy as np

    from vf.ref import c15_rge as R
    from vf.ref.c15_mk import ffns_couplings

    order, running, nf = tuple(case["order"]), case["running"], case["nf"]
    alphas, alphaem, mu_ref, L = case["alphas"], case["alphaem"], case["mu_ref"], case["L"]
    coupled = running and order[1] >= 1
    res = Result()
    mu2 = mu_ref**2 * math.exp(L)
    rs = []
    d5 = {}
    where0 = f"order={order} em_running={running} nf={nf} alphas={alphas} alphaem={alphaem} mu_ref={mu_ref} L={L}"
    with warnings.catch_warnings():
        warnings.simplefilter("ignore")
        for k in range(NLAMBDA):
            lam = 2.0**-k
            als = alphas * lam
            ale = alphaem * lam if coupled else alphaem
            ref = R.Reference(order, running, nf, als, ale, mu_ref).at(mp.mpf(mu2))  # the very float scale handed to eko
            if ref is None:
                rs.append(None)
                continue
            try:
                c = ffns_couplings(order, running, "expanded", nf, als, ale, mu_ref)
                got = np.array(c.a(mu2, nf), dtype=float)
            except Exception as e:  # noqa
                res.fail("Couplings.a/raises/expanded", f"{where0} lambda=2^-{k}: {type(e).__name__}: {e}")
                return res
            if not np.all(np.isfinite(got)):
                rs.append(None)
                continue
            rs.append(tuple(abs(float(mp.mpf(float(got[i])) / ref[i] - 1)) for i in (0, 1)))
            # signed difference in units of a0^5 (used to pin the recorded defect of expanded_n3lo)
            a0k = mp.mpf(als) / (4 * mp.pi)
            d5[k] = float((mp.mpf(float(got[0])) - ref[0]) / a0k**5)
    n = order[0]
    demand = 2.0 if coupled else float(n + 1)
    thr = demand - 0.25
    info = {}
    pinned_n3lo = {}
    trivial = True
    inconclusive = False
    for i, nm in ((0, "a_s"), (1, "a_em")):
        if i == 1 and not coupled:
            continue
        seq = [(k, r[i]) for k, r in enumerate(rs) if r is not None and r[i] >= FLOOR]
        exps = [
            (k1, math.log2(r0 / r1))
            for (k0, r0), (k1, r1) in zip(seq, seq[1:])
            if k1 == k0 + 1
        ]
        if len(exps) < 2:
            # the two solutions agree to rounding (LO: identical formulas) or leave the float range at once
            continue
        # asymptotic window: the pair of consecutive local exponents at the smallest couplings that agree to
        # 0.15 (a sign change of the difference shows up as one very large and one very small exponent and
        # is stepped over); without such a pair the case is inconclusive
        last = None
        for j in range(len(exps) - 1, 0, -1):
            if exps[j][0] == exps[j - 1][0] + 1 and abs(exps[j][1] - exps[j - 1][1]) <= 0.15:
                last = [exps[j - 1][1], exps[j][1]]
                break
        if last is None:
            inconclusive = True
            continue
        trivial = False
        # judged on the exponent at the smallest couplings of that pair (the local exponent may approach its
        # limit from below after a sign change of the difference)
        if last[-1] >= thr:
            info[f"min_exponent_margin_{nm}"] = last[-1] - demand
        shown = (
            f"{where0}: relative difference expanded-exact for lambda=2^-k: "
            f"{[None if r is None else float('%.3e' % r[i]) for r in rs]}; local exponents "
            f"{[round(e, 2) for _, e in exps]}; the asymptotic pair is {[round(e, 2) for e in last]}"
        )
        if last[-1] < thr:
            sig = f"expanded_vs_exact/running/{nm}" if coupled else f"expanded_vs_exact/qcd={n}/{nm}"
            msg = f"{shown}, its last member must be >= {thr} (difference must be of relative order lambda^{demand:g})"
            if not coupled and n == 4 and i == 0:
                # recorded defect of expanded_n3lo: the failure keeps its listed signature only while it IS that defect
                pin = _pin_n3lo(order, nf, alphaem, mu_ref, mu2, rs, d5, last[-1])
                pinned_n3lo.update(pin)
                if not pin["matches"]:
                    sig += "/beyond-known"
                    msg += (
                        f"; NOT the recorded defect alone: that one has exponent >= {PIN_N3LO_EXPONENT} and "
                        f"lim (expanded-exact)/a0^5 = beta_3 (1 - 1/beta_0) L = {pin['model']!r}, measured {pin['measured']!r} "
                        f"(Richardson pair k={pin['pair']}, relative deviation {pin['dev']!r} > {PIN_N3LO_COEFF})"
                    )
            res.fail(sig, msg)
        elif coupled:
            # every coefficient of the working order enters at third order in the couplings and both methods
            # carry it: the relative difference must vanish like lambda^3
            thr3 = COUPLED_THIRD_ORDER - 0.25
            if last[-1] >= thr3:
                info[f"min_exponent_margin3_{nm}"] = last[-1] - COUPLED_THIRD_ORDER
            else:
                res.fail(
                    f"expanded_vs_exact/running/{nm}/third-order-terms",
                    f"{shown}, its last member must be >= {thr3}: the terms of third order in the couplings (generated by "
                    "beta_0^2, beta_1, the mixed coefficients beta_qcd(2,1) / beta_qed(1,2) and beta_qed(0,3), all part of the "
                    "working order) must agree, leaving a relative difference of order lambda^3",
                )
    margins = [v for k, v in info.items() if k.startswith("min_exponent_margin_") and v is not None]
    margins3 = [v for k, v in info.items() if k.startswith("min_exponent_margin3_") and v is not None]
    res.info = {"max_exponent_shortfall_of_passing_cases_vs_integer_demand": max([-m for m in margins], default=-99.0), "residuals": [None if r is None else list(r) for r in rs]}
    if margins3:
        res.info["max_exponent_shortfall_coupled_vs_third_order"] = max(-m for m in margins3)
    if pinned_n3lo:
        # known-failing cases stay out of the head-room maxima above; what is recorded is how well they match the model
        res.info["pinned_n3lo"] = pinned_n3lo
        if pinned_n3lo["matches"]:
            res.info["max_rel_dev_pinned_n3lo_coefficient"] = pinned_n3lo["dev"]
            res.info["max_exponent_shortfall_pinned_n3lo_vs_4"] = 4.0 - pinned_n3lo["exponent"]
    res.nontrivial = not trivial
    res.outcome = f"slope/{'coupled' if coupled else 'qcd=%d' % n}/{'inconclusive' if inconclusive else 'trivial' if trivial else 'measured'}"
    return res


def evaluate(case):
    return {"rge": _eval_rge, "slope": _eval_slope}[case["kind"]](case)


def run(ctx):
    thorough = ctx.thorough()
    cases = []
    nfs = [3, 4, 5, 6]
    for order, running, nf in itertools.product(ORDERS, [False, True], nfs):
        coupled = running and order[1] >= 1
        if thorough and not coupled:
            pts = list(itertools.product([0.08, 0.118, 0.2, 0.35], [2.0, 10.0, 91.2, 200.0]))
        elif thorough:
            pts = list(itertools.product([0.118, 0.35], [2.0, 91.2]))
        else:
            pts = [(0.118, 91.2), (0.35, 2.0)]
        if order[1] == 0:
            aems = [0.0075]
        else:
            aems = [0.001, 0.0075, 0.01] if thorough else [0.0075]
        if coupled and nf in (3, 4):
            # a reference below m_tau: the lepton-number split is entered with 2 leptons first, 3 afterwards
            pts = pts + [(0.35, 1.6)]
        for (a, r), e in itertools.product(pts, aems):
            cases.append({"kind": "rge", "order": order, "running": running, "nf": nf, "alphas": a, "alphaem": e, "mu_ref": r})
    for order, running in itertools.product(ORDERS, [False, True]):
        coupled = running and order[1] >= 1
        for nf in nfs if thorough else ([4] if coupled else [4, 6]):
            for a in [0.2, 0.35] if thorough else [0.35]:
                for L in [-1.0, 0.5, 3.0] if thorough else [-1.0, 3.0]:
                    cases.append({"kind": "slope", "order": order, "running": running, "nf": nf, "alphas": a, "alphaem": 0.01, "mu_ref": 2.0, "L": L})
    ctx.run_cases(cases, evaluate, chunksize=1)
    ctx.rule = (
        "rge: complete product of 12 orders (QCD 1-4 x QED 0-2) x em_running on/off x nf 3-6 x alpha_s(ref) x mu_ref x "
        "alpha_em (quick: (alpha_s, mu_ref) in {(0.118,91.2),(0.35,2)}, alpha_em 0.0075; thorough: alpha_s in "
        "{0.08,0.118,0.2,0.35}, mu_ref in {2,10,91.2,200}, alpha_em in {0.001,0.0075,0.01}; the coupled-running "
        "configurations use alpha_s in {0.118,0.35} x mu_ref in {2,91.2}, and for nf 3,4 also the reference (0.35, 1.6 GeV) "
        "below m_tau), each case evaluating exact and expanded method at 16-17 target "
        "scales (1.5 ... 1000 GeV, incl. mu_ref, m_tau exactly, 1.9 GeV just above it, and mu_ref^2 x (1 -+ 1e-10), (1 -+ 1e-7), (1 -+ 3e-4) "
        "next to the reference), a_s()/a_em() wrappers at 10 GeV; slope: 12 orders x running x nf x "
        "alpha_s x ln(mu^2/mu_ref^2) in {-1,0.5,3}, 11 scalings lambda=2^-k each. non-trivial = at least 3 perturbative "
        "targets (rge) / two measured exponents (slope)"
    )
    ctx.assumptions += [
        "truncated coupled RGE as defined in vf/ref/c15_rge.py (QCD terms (j,k) with j<=n+1,k<=m; QED terms j<=n,k<=m+1; known coefficients only)",
        "comparisons restricted to targets where the reference has alpha_s <= 0.5 (perturbative range)",
        "exact method: 1e-5 relative (the implementation asks its ODE solver for rtol 1e-6); a_em: 1e-8 relative",
        "targets next to the reference (relative distance 1e-10, 1e-7, 3e-4; Couplings.a skips only segments of zero length up to 1e-14): "
        "the change of a_s must equal the change of the RGE solution to 10 % (25 % for the N3LO expanded "
        "solution, whose recorded O(a^5) defect is a 2 % error of the slope at alpha_s = 0.35)",
        "expanded vs exact: fixed-order counting at fixed ln(mu^2/mu_ref^2): relative difference O(lambda^(n+1)); "
        "O(lambda^2) when alpha_em runs; the pair of consecutive local exponents at the smallest couplings that agree to 0.15 is the asymptotic window; its last member must be >= demand-0.25, residuals below 1e-14 skipped, 11 scalings",
        "running alpha_em, second oracle (signature .../third-order-terms): 'beyond the working order' read as: the terms every included "
        "coefficient generates at its leading (third) order in the couplings agree, i.e. relative difference O(lambda^3), exponent >= 2.75",
        "recorded defect expanded_vs_exact/qcd=4/a_s pinned to: exponent >= 3.75 and lim (expanded-exact)/a0^5 = beta_3 (1 - 1/beta_0) ln(mu^2/mu_ref^2) "
        "to 2 % (Richardson pair of scalings); any other failure of these cases has the signature expanded_vs_exact/qcd=4/a_s/beyond-known",
        "number of leptons 2 for mu^2 <= m_tau^2 = 1.777^2, else 3",
    ]
