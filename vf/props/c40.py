"""C40 runcards and dict-like structures round-trip through their raw form (X-num).

For every enumerated object `o` of class K:   K.from_dict(safe_load(safe_dump(o.raw))) == o
field by field (NaN-aware; XGrid by the bits of its grid AND its log flag), and the
interpolator built by `eko.runner.commons.interpolator` (directly and through a real EKO's
`runner.parts._managers`) has the degree, grid and log flag declared in the operator card - and
behaves accordingly (degree 1: value 1/2 at the arithmetic resp. geometric midpoint of a cell).

kinds of cases
  theory    (order, scheme) x complete inner product of the remaining theory settings
  operator  (method, sv, inversion) x complete inner product of interpolation / grid / flags
  plant     one card leaf replaced by the NumPy scalar of its kind
  xgridobj  OperatorCard / Metadata holding an XGrid object with the linear flag
  synthetic one DictLike class per subset of {array,tuple,enum,nested,optional,dict,xgrid,plaindc} fields
            x array hint spelling x every leaf planted with a NumPy scalar (and all at once); further NumPy
            kinds at the plain leaves; Optional[bool]/Optional[str] holding None; special / empty / bool / 0-d arrays
  managers  a real EKO is created from the cards; the interpolator of runner.parts._managers
  compute   real solves with both integration kernels recorded (evolution kernel; with a threshold crossing
            also the matching kernel of operator_matrix_element): mode, node, basis of every call
  edited    operator cards whose interpolation mode is changed by attribute assignment AFTER construction
            (the documented way of customising a card): configs only, grid object only, or both;
            round trip + a real solve: mode used by the kernel == mode declared in configs == mode the
            archive records for its grid
  tupleform nested DictLike given as a sequence (positional form of from_dict)
"""

import copy
import itertools
import math

import numpy as np

from vf.core import cards
from vf.core.ctx import Result
from vf.ref import c36_canon as cn
from vf.ref import c36_dictlike as syn

ID = "C40"
LEVEL = "exploration"
TECHNIQUE = "complete products of card settings and of synthetic dict-like classes through raw -> safe_dump -> safe_load -> from_dict"
LEVEL_TEXT = (
    "every enumerated card / dict-like object is serialised with its own `raw`, passed through PyYAML's safe "
    "dumper and loader, rebuilt with `from_dict` and compared field by field with an independent canonicaliser; "
    "the interpolator the runner builds is compared with the card's declared degree, grid and log flag, and in real solves "
    "(with and without a threshold crossing) every call of the evolution and of the matching integration kernel is "
    "compared with the declared mode, nodes and basis; cards edited after construction go through the same round trip and solve"
)
LEVEL_NOTE = (
    "decides the property on the enumerated settings and classes only; trusted: PyYAML safe_dump/safe_load, "
    "the canonicaliser vf/ref/c36_canon.py; field types limited to those eko's cards and its own dictlike test use, plus a "
    "nested plain dataclass and Optional[bool] / Optional[str]; for cards edited after construction a refusal (ValueError) counts as holding"
)
FLOOR_NONTRIVIAL = 50

INF = math.inf

# ----------------------------------------------------------------------------- theory lattice
ORDERS = [[q, e] for q in (1, 2, 3, 4) for e in (0, 1, 2)]
SCHEMES = ["POLE", "MSBAR"]
TH_INNER = dict(
    ratios=[[1.0, 1.0, 1.0], [0.5, 1.0, 2.0], [1.0, "inf", "inf"]],
    n3lo_ad_variation=[[0, 0, 0, 0, 0, 0, 0], [1, 2, 3, 1, 2, 3, 1]],
    matching_order=[None, [0, 0], [2, 0]],
    use_fhmruvv=[True, False, None],
    em_running=[False, True],
    xif=[1.0, 0.5],
    ref=[[91.2, 5], [1.51, 3]],
)
# ----------------------------------------------------------------------------- operator lattice
SVS = [None, "exponentiated", "expanded"]
INVS = [None, "exact", "expanded"]
GRID_NAMES = ["five", "make_grid", "lambert", "smallx"]
OP_INNER = dict(
    degree=[1, 2, 4],
    is_log=[True, False],
    grid=GRID_NAMES,
    flags=[[False, False], [True, False], [False, True], [True, True]],
    mugrid=[[], [[100.0, 5]], [[2.0, 3], [2.0, 4], [1.0e4, 6]]],
    max_order=[[10, 0], [3, 2]],
)


def _grid(name):
    from eko import interpolation

    if name == "five":
        return [1e-3, 1e-2, 0.1, 0.5, 1.0]
    if name == "make_grid":
        return interpolation.make_grid(4, 3).tolist()
    if name == "lambert":
        return interpolation.lambertgrid(6).tolist()
    if name == "smallx":
        return [1e-7, 1.1e-7, 1e-6, 1e-4, 1e-2, 0.3, 1.0]
    raise ValueError(name)


def _product(dims):
    names = list(dims)
    for vals in itertools.product(*(dims[n] for n in names)):
        yield dict(zip(names, vals))


# ----------------------------------------------------------------------------- the round trip
def roundtrip(res, obj, cls, sigroot, where, expect=None, logsig=None, numpy_site=None, view=None):
    """raw -> safe_dump -> safe_load -> from_dict -> compare. Returns the rebuilt object or None.

    expect: object the rebuilt one is compared with (default: obj itself); logsig: signature of a difference in an
    XGrid log flag (default: the historical one); numpy_site: where a NumPy scalar was planted, if outside the
    historical sites (tuple / dict / list / field), so that a dump failure there gets its own signature;
    view: function applied to the canonical form of the rebuilt object before the comparison.
    """
    import re

    import yaml

    try:
        raw = obj.raw
    except Exception as exc:  # noqa
        res.fail(f"{sigroot}/raw-raises", f"{where}: {type(exc).__name__}: {str(exc)[:200]}")
        return None
    try:
        text = yaml.safe_dump(raw)
    except Exception as exc:  # noqa
        culprit = cn.plain_violation(raw) or "?"
        tname = culprit.rsplit("of type ", 1)[-1]
        if tname.startswith("numpy.") and numpy_site:
            sig = f"dictlike.raw_field/{numpy_site}/numpy-scalar-not-normalised"
        elif tname.startswith("numpy."):
            sig = f"dictlike.raw_field/numpy-scalar-not-normalised/{tname}"
        else:
            sig = f"{sigroot}/safe_dump-rejects/{tname}"
        res.fail(sig, f"{where}: yaml.safe_dump(raw) raised {type(exc).__name__}; raw{culprit}")
        return None
    try:
        data = yaml.safe_load(text)
    except Exception as exc:  # noqa
        res.fail(f"{sigroot}/safe_load-rejects", f"{where}: {type(exc).__name__}: {str(exc)[:200]}")
        return None
    try:
        back = cls.from_dict(data)
    except Exception as exc:  # noqa
        res.fail(f"{sigroot}/from_dict-raises/{type(exc).__name__}", f"{where}: {type(exc).__name__}: {str(exc)[:200]}")
        return None
    got = cn.canon(back)
    if view is not None:
        got = view(got)
    d = cn.first_diff(cn.canon(obj if expect is None else expect), got)
    if d:
        field = d.split(":")[0]
        coerced = re.search(r": None vs (False|'None')$", d)
        if field.endswith("/log"):
            res.fail(logsig or "dictlike.raw_field/XGrid/log-flag-lost", f"{where}: before vs after the round trip {d}")
        elif coerced:
            # one defect, whatever the class: the variants of an Optional are tried with the value None
            kind = "bool" if coerced.group(1) == "False" else "str"
            res.fail(f"dictlike.load_typing/Optional-None-coerced/{kind}", f"{where}: before vs after the round trip {d}")
        else:
            generic = re.sub(r"\[[0-9]+\]", "[]", field)
            res.fail(f"{sigroot}/differs{generic}", f"{where}: before vs after the round trip {d}")
    return back


# int-typed leaves of the two cards: the canonical comparison identifies 1 and 1.0, the type row does not
def _int_leaves(card):
    from eko.io.runcards import TheoryCard

    if isinstance(card, TheoryCard):
        out = [(f"order[{i}]", v) for i, v in enumerate(card.order)]
        out.append(("couplings.ref[1]", card.couplings.ref[1]))
        out += [(f"n3lo_ad_variation[{i}]", v) for i, v in enumerate(card.n3lo_ad_variation)]
        out += [(f"matching_order[{i}]", v) for i, v in enumerate(card.matching_order)]
        return out
    c = card.configs
    out = [("init[1]", card.init[1])] + [(f"mugrid[{i}][1]", ep[1]) for i, ep in enumerate(card.mugrid)]
    out += [(f"configs.ev_op_max_order[{i}]", v) for i, v in enumerate(c.ev_op_max_order)]
    out += [
        ("configs.ev_op_iterations", c.ev_op_iterations), ("configs.interpolation_polynomial_degree", c.interpolation_polynomial_degree),
        ("configs.n_integration_cores", c.n_integration_cores),
    ]
    return out


def check_int_types(res, back, sigroot, where):
    """Every int-typed leaf of a reloaded card is a Python int (not a float of equal value, not a bool)."""
    import re

    if back is None:
        return 0
    n = 0
    for path, v in _int_leaves(back):
        n += 1
        if type(v) is not int:
            generic = re.sub(r"\[[0-9]+\]", "[]", path)
            res.fail(f"{sigroot}/int-leaf-type/{generic}", f"{where}: reloaded {path} = {v!r} of type {type(v).__name__}")
    return n


# ----------------------------------------------------------------------------- interpolator oracle
def check_interpolator(res, itp, degree, grid, is_log, sigroot, where):
    ok = True
    if itp.polynomial_degree != degree:
        res.fail(f"{sigroot}/degree", f"{where}: interpolator degree {itp.polynomial_degree}, card declares {degree}")
        ok = False
    if np.asarray(itp.xgrid.raw, dtype=float).tobytes() != np.asarray(grid, dtype=float).tobytes():
        res.fail(f"{sigroot}/grid", f"{where}: interpolator grid {itp.xgrid.raw.tolist()}, card declares {grid}")
        ok = False
    modes = {bool(itp.log), bool(itp.xgrid.log)} | {bool(bf._mode_log) for bf in itp}
    if modes != {bool(is_log)}:
        res.fail(
            f"{sigroot}/is_log-ignored",
            f"{where}: card declares interpolation_is_log={is_log}, interpolator built with log={sorted(modes)}",
        )
        ok = False
    if ok and degree == 1:
        # behaviour: a degree-1 Lagrange basis in the declared variable takes the value 1/2 at the
        # midpoint of a cell in that variable (x or log x)
        x0, x1 = grid[1], grid[2]
        mid = math.sqrt(x0 * x1) if is_log else 0.5 * (x0 + x1)
        itx = type(itp)(itp.xgrid, degree, mode_N=False)
        row = itx.get_interpolation([mid])[0]
        dev = max(abs(row[1] - 0.5), abs(row[2] - 0.5))
        if dev > 1e-12:
            res.fail(
                f"{sigroot}/behaviour",
                f"{where}: basis values at the {'geometric' if is_log else 'arithmetic'} midpoint {mid}: {row[1]}, {row[2]} (expected 0.5)",
            )
        return dev
    return 0.0


# ----------------------------------------------------------------------------- direct construction
def _num(x):
    return {"inf": math.inf, "-inf": -math.inf, "nan": math.nan}[x] if isinstance(x, str) else x


def direct_theory(cfg):
    """TheoryCard built with the dataclass constructors only (no from_dict involved)."""
    from eko.io.runcards import TheoryCard
    from eko.io.types import ReferenceRunning
    from eko.quantities.couplings import CouplingsInfo
    from eko.quantities.heavy_quarks import HeavyInfo, HeavyQuarks, QuarkMassScheme

    c = cards.full(cfg)
    refs = c["mass_refs"] or [math.nan] * 3
    return TheoryCard(
        order=tuple(c["order"]),
        couplings=CouplingsInfo(
            alphas=c["alphas"], alphaem=c["alphaem"], ref=(c["ref"][0], c["ref"][1]), em_running=c["em_running"]
        ),
        heavy=HeavyInfo(
            masses=HeavyQuarks([ReferenceRunning([_num(m), _num(r)]) for m, r in zip(c["masses"], refs)]),
            masses_scheme=QuarkMassScheme[c["scheme"]],
            matching_ratios=HeavyQuarks([_num(r) for r in c["ratios"]]),
        ),
        xif=c["xif"],
        n3lo_ad_variation=tuple(c["n3lo_ad_variation"]),
        use_fhmruvv=c["use_fhmruvv"],
        matching_order=None if c["matching_order"] is None else tuple(c["matching_order"]),
    )


def direct_operator(cfg):
    """OperatorCard built with the dataclass constructors only; the grid object carries the declared flag."""
    from eko.interpolation import XGrid
    from eko.io.runcards import Configs, Debug, OperatorCard
    from eko.io.types import EvolutionMethod, InversionMethod, ScaleVariationsMethod

    c = cards.full(cfg)
    return OperatorCard(
        init=(c["init"][0], c["init"][1]),
        mugrid=[(_num(m), n) for m, n in c["mugrid"]],
        xgrid=XGrid(list(c["xgrid"]), log=c["is_log"]),
        configs=Configs(
            evolution_method=EvolutionMethod(c["method"]),
            ev_op_max_order=tuple(c["max_order"]),
            ev_op_iterations=c["iterations"],
            scvar_method=None if c["sv"] is None else ScaleVariationsMethod(c["sv"]),
            inversion_method=None if c["inversion"] is None else InversionMethod(c["inversion"]),
            interpolation_polynomial_degree=c["degree"],
            interpolation_is_log=c["is_log"],
            polarized=c["polarized"],
            time_like=c["time_like"],
            n_integration_cores=c["cores"],
        ),
        debug=Debug(skip_singlet=c["skip_singlet"], skip_non_singlet=c["skip_non_singlet"]),
    )


# ----------------------------------------------------------------------------- evaluators
def eval_theory(case):
    from eko.io.runcards import TheoryCard

    res = Result()
    n = 0
    for inner in _product(TH_INNER):
        cfg = dict(order=case["order"], scheme=case["scheme"], **inner)
        if case["scheme"] == "MSBAR":
            cfg["mass_refs"] = [2.0, 4.5, 173.07]
        if inner["em_running"]:
            cfg["alphaem"] = 0.0078125
        th = direct_theory(cfg)
        back = roundtrip(res, th, TheoryCard, "TheoryCard.roundtrip", f"cfg={cfg}")
        check_int_types(res, back, "TheoryCard.roundtrip", f"cfg={cfg}")
        n += 1
    res.info = {"max_inner_points": n}
    res.outcome = "theory:" + ("ok" if not res.fails else "fails")
    return res


def eval_operator(case):
    from eko.io.runcards import OperatorCard
    from eko.runner import commons

    res = Result()
    n = 0
    maxdev = 0.0
    itp_cache = {}
    if case.get("tier") == "thorough":
        inners = list(_product(OP_INNER))
    else:
        # quick: the interpolation product at the base flags + the flags product at the base interpolation
        first = {k: [v[0]] for k, v in OP_INNER.items()}
        a = dict(first, degree=OP_INNER["degree"], is_log=OP_INNER["is_log"], grid=OP_INNER["grid"])
        b = dict(first, flags=OP_INNER["flags"], mugrid=OP_INNER["mugrid"], max_order=OP_INNER["max_order"], is_log=OP_INNER["is_log"])
        inners = list(_product(a))
        inners += [i for i in _product(b) if i not in inners]
    for inner in inners:
        grid = _grid(inner["grid"])
        cfg = dict(
            method=case["method"], sv=case["sv"], inversion=case["inversion"], degree=inner["degree"],
            is_log=inner["is_log"], xgrid=grid, polarized=inner["flags"][0], time_like=inner["flags"][1],
            mugrid=inner["mugrid"], max_order=inner["max_order"],
        )
        op = direct_operator(cfg)
        where = f"cfg={ {k: v for k, v in cfg.items() if k != 'xgrid'} } grid={inner['grid']}"
        back = roundtrip(res, op, OperatorCard, "OperatorCard.roundtrip", where)
        check_int_types(res, back, "OperatorCard.roundtrip", where)
        n += 1
        key = (inner["degree"], inner["is_log"], inner["grid"])
        if key in itp_cache or back is None:
            continue
        itp_cache[key] = True
        for tag, card in (("written", op), ("reloaded", back)):
            try:
                itp = commons.interpolator(card)
            except Exception as exc:  # noqa
                res.fail("runner.commons.interpolator/raises", f"{where}: {type(exc).__name__}: {exc}")
                continue
            dev = check_interpolator(res, itp, inner["degree"], grid, inner["is_log"], "runner.commons.interpolator", f"{tag} card {where}")
            maxdev = max(maxdev, dev)
    res.info = {"max_inner_points": n, "max_midpoint_dev": maxdev}
    res.outcome = "operator:" + ("ok" if not res.fails else "fails")
    return res


def _raw_theory():
    return dict(
        order=[3, 1],
        couplings=dict(alphas=0.118, alphaem=0.0078125, ref=[91.2, 5], em_running=True),
        heavy=dict(
            masses=[[1.51, 2.0], [4.92, 4.92], [172.5, 172.5]], masses_scheme="msbar", matching_ratios=[1.0, 2.0, 0.5]
        ),
        xif=1.5,
        n3lo_ad_variation=[0, 1, 0, 2, 0, 3, 0],
        matching_order=[2, 0],
        use_fhmruvv=True,
    )


def _raw_operator():
    return dict(
        init=[1.65, 4],
        mugrid=[[10.0, 4], [100.0, 5]],
        xgrid=[1e-3, 1e-2, 0.1, 0.5, 1.0],
        configs=dict(
            evolution_method="truncated", ev_op_max_order=[10, 0], ev_op_iterations=10,
            interpolation_polynomial_degree=2, interpolation_is_log=True, scvar_method="expanded",
            inversion_method=None, n_integration_cores=1, polarized=False, time_like=False,
        ),
        debug=dict(skip_singlet=False, skip_non_singlet=True),
    )


PLANTS = {
    "theory": [
        ("order[0]", "int64"), ("couplings.alphas", "float64"), ("couplings.alphaem", "float64"),
        ("couplings.ref[0]", "float64"), ("couplings.ref[1]", "int64"), ("couplings.em_running", "bool_"),
        ("heavy.masses[0][0]", "float64"), ("heavy.masses[1][1]", "float64"), ("heavy.matching_ratios[1]", "float64"),
        ("xif", "float64"), ("n3lo_ad_variation[3]", "int64"), ("matching_order[0]", "int64"), ("use_fhmruvv", "bool_"),
    ],
    "operator": [
        ("init[0]", "float64"), ("init[1]", "int64"), ("mugrid[1][0]", "float64"), ("mugrid[0][1]", "int64"),
        ("xgrid[2]", "float64"), ("configs.ev_op_max_order[0]", "int64"), ("configs.ev_op_iterations", "int64"),
        ("configs.interpolation_polynomial_degree", "int64"), ("configs.interpolation_is_log", "bool_"),
        ("configs.polarized", "bool_"), ("configs.n_integration_cores", "int64"), ("debug.skip_singlet", "bool_"),
    ],
}


def _plant(d, path, kind):
    import re

    toks = re.findall(r"[A-Za-z_0-9]+|\[[0-9]+\]", path)
    toks = [int(t[1:-1]) if t.startswith("[") else t for t in toks]
    cur = d
    for t in toks[:-1]:
        cur = cur[t]
    cur[toks[-1]] = syn.NPK[kind](cur[toks[-1]])


def eval_plant(case):
    from eko.io.runcards import OperatorCard, TheoryCard

    res = Result()
    cls = TheoryCard if case["card"] == "theory" else OperatorCard
    raw = _raw_theory() if case["card"] == "theory" else _raw_operator()
    leaves = PLANTS[case["card"]] if case["leaf"] == "*" else [(case["leaf"], case["npkind"])]
    for leaf, kind in leaves:
        _plant(raw, leaf, kind)
    where = f"{cls.__name__} with {case['leaf']} given as numpy.{case['npkind']}"
    try:
        obj = cls.from_dict(raw)
    except Exception as exc:  # noqa
        res.fail(f"{cls.__name__}.from_dict/numpy-input-raises", f"{where}: {type(exc).__name__}: {exc}")
        return res
    back = roundtrip(res, obj, cls, f"{cls.__name__}.roundtrip", where)
    check_int_types(res, back, f"{cls.__name__}.roundtrip", where)
    res.outcome = f"plant:{case['npkind']}:" + ("ok" if not res.fails else "fails")
    return res


def eval_xgridobj(case):
    from eko.interpolation import XGrid
    from eko.io.metadata import Metadata
    from eko.io.runcards import OperatorCard

    res = Result()
    grid = _grid(case["grid"])
    xg = XGrid(grid, log=case["log"])
    if case["holder"] == "operator":
        _, obj = cards.build(dict(xgrid=grid, is_log=case["log"]))
        obj.xgrid = xg
        cls = OperatorCard
    else:
        obj = Metadata(origin=(2.7225, 4), xgrid=xg)
        cls = Metadata
    roundtrip(res, obj, cls, f"{cls.__name__}.roundtrip", f"{cls.__name__} holding XGrid({case['grid']}, log={case['log']})")
    res.outcome = f"xgridobj:{case['log']}:" + ("ok" if not res.fails else "fails")
    return res


def _one_nan(c):
    """All NaNs of the float array `a` identified (YAML carries neither sign nor payload of a NaN); other bits kept."""
    a = c.get("a")
    if isinstance(a, dict) and a.get("__array__") == "f":
        arr = np.frombuffer(bytes.fromhex(a["bytes"]), dtype=float).copy()
        arr[np.isnan(arr)] = np.nan
        c = dict(c, a=dict(a, bytes=arr.tobytes().hex()))
    return c


def eval_synthetic(case):
    res = Result()
    feats = case["features"]
    hint = case["hint"]
    try:
        cls = syn.build(feats, hint)
    except Exception as exc:  # noqa
        res.fail("synthetic/class-definition", f"{feats}: {type(exc).__name__}: {exc}")
        return res
    n = 0
    sroot = "DictLike[array hint npt.NDArray].roundtrip" if ("array" in feats and hint == "npt.NDArray") else "DictLike.roundtrip"
    plants = [None] + [name for name, _ in syn.leaves(feats)] + ["*"]
    for plant in plants:
        obj = syn.instance(cls, feats, plant)
        kind = dict(syn.leaves(feats)).get(plant, "all" if plant == "*" else "none")
        where = f"DictLike with fields {feats or ['plain']} (array hint {hint}), NumPy {kind} planted at {plant}"
        roundtrip(res, obj, cls, sroot, where)
        n += 1
    if "optional" in feats:
        obj = syn.instance(cls, feats, None)
        obj.o = None
        obj.oe = None
        obj.on = 3
        roundtrip(res, obj, cls, sroot, f"DictLike with fields {feats}, optional fields swapped (None <-> value)")
        obj = syn.instance(cls, feats, None)
        obj.o = 0.0
        obj.on = 0
        roundtrip(res, obj, cls, sroot, f"DictLike with fields {feats}, optional fields holding zeros")
        n += 2
        # Optional[bool] / Optional[str]: None and the falsy value of the type are different field values
        for name, val in (("ob", None), ("ob", False), ("os", None), ("os", ""), ("os", "None")):
            obj = syn.instance(cls, feats, None)
            setattr(obj, name, val)
            roundtrip(res, obj, cls, sroot, f"DictLike with fields {feats}, optional field {name} = {val!r}")
            n += 1
    # ---- NumPy scalar kinds beyond float64 / int64 / bool_ at the always-present leaves: reloaded == the plain object
    plain = syn.instance(cls, feats, None)
    for name, kind, ctor in syn.EXTRA_KINDS:
        obj = syn.instance(cls, feats, None)
        setattr(obj, name, ctor(getattr(plain, name)))
        roundtrip(res, obj, cls, sroot, f"DictLike with fields {feats or ['plain']} (array hint {hint}), NumPy {kind} planted at {name}", expect=plain)
        n += 1
    # ---- leaves of the nested plain dataclass
    for name, kind in syn.plain_leaves(feats):
        obj = syn.instance(cls, feats, name)
        roundtrip(
            res, obj, cls, sroot, f"DictLike with fields {feats} (array hint {hint}), NumPy {kind} planted at {name} inside the nested plain dataclass",
            expect=plain, numpy_site="plain-dataclass",
        )
        n += 1
    if "array" in feats:
        # array values beyond the finite 1-d / 2-d ones: special values, empty, bool, int64 column
        for tag, arr in (
            ("special", np.array([math.nan, math.inf, -math.inf, -0.0, 5e-324])), ("empty", np.array([])),
            ("bool", np.array([True, False, True])), ("3d", np.arange(8.0).reshape(2, 2, 2)), ("strided", np.arange(10.0)[::3]),
        ):
            obj = syn.instance(cls, feats, None)
            obj.a = arr
            roundtrip(res, obj, cls, sroot, f"DictLike with fields {feats} (array hint {hint}), array field holding the {tag} array {arr.tolist()}", view=_one_nan)
            n += 1
        # a 0-d array: dictlike documents "do not apply array on scalars" - the value must survive (as a 0-d array or
        # as the Python scalar of the same value), the container kind is not demanded
        obj = syn.instance(cls, feats, None)
        obj.a = np.array(3.5)
        want0 = cn.canon(obj)["a"]

        def view(c):
            if type(c.get("a")) is float and c["a"] == 3.5:
                c = dict(c, a=want0)
            return c

        roundtrip(res, obj, cls, sroot, f"DictLike with fields {feats} (array hint {hint}), array field holding a 0-d array", view=view)
        n += 1
    res.info = {"max_inner_points": n}
    res.outcome = f"synthetic:{len(feats)}:" + ("ok" if not res.fails else "fails")
    return res


def eval_managers(case):
    import os
    import shutil

    from eko.io.struct import EKO
    from eko.runner import parts

    res = Result()
    grid = _grid(case["grid"])
    cfg = dict(xgrid=grid, degree=case["degree"], is_log=case["is_log"], mugrid=[[10.0, 4]])
    th, op = cards.build(cfg)
    path = cards.scratch_path("c40")
    e = None
    try:
        e = EKO.create(path).load_cards(th, op).build()
        itp = parts._managers(e).interpolator
        check_interpolator(
            res, itp, case["degree"], grid, case["is_log"], "runner.commons.interpolator", f"runner.parts._managers of an EKO built from cfg={ {k: v for k, v in cfg.items() if k != 'xgrid'} } grid={case['grid']}"
        )
    except Exception as exc:  # noqa
        res.fail("runner.parts._managers/raises", f"{cfg}: {type(exc).__name__}: {exc}")
    finally:
        if e is not None:
            shutil.rmtree(e.metadata.path, ignore_errors=True)
        try:
            os.unlink(path)
        except OSError:
            pass
    res.outcome = f"managers:{case['is_log']}:" + ("ok" if not res.fails else "fails")
    return res


def _mellin_ref(bf_x, areas_x, N, x, is_log):
    """int_{z > x, z in support} p(z) z^(N-1) dz * x^(-N) by adaptive quadrature of the x-space basis function."""
    from scipy import integrate as si

    tot = 0.0 + 0.0j
    for a in areas_x:
        lo, hi = (math.exp(a.xmin), math.exp(a.xmax)) if is_log else (a.xmin, a.xmax)
        if hi <= x:
            continue

        def f(z, part):
            v = bf_x(z) * np.exp((N - 1.0) * np.log(z) - N * np.log(x))
            return v.real if part == 0 else v.imag

        lo = max(lo, 1e-300)
        re_ = si.quad(f, lo, hi, args=(0,), epsabs=1e-13, epsrel=1e-12, limit=200)[0]
        im_ = si.quad(f, lo, hi, args=(1,), epsabs=1e-13, epsrel=1e-12, limit=200)[0]
        tot += re_ + 1j * im_
    return tot


def _spied_solve(th, op, path):
    """eko.solve with both integration kernels recorded and a two-point quadrature stub.

    Returns (calls_evolution, calls_matching); a call is (is_log, log x, flattened basis configuration).
    """
    import sys
    import types

    import eko
    import eko.evolution_operator  # noqa
    import eko.evolution_operator.operator_matrix_element  # noqa

    evop = sys.modules["eko.evolution_operator"]
    omem = sys.modules["eko.evolution_operator.operator_matrix_element"]
    calls, ocalls = [], []
    real_qk, real_oqk = evop.quad_ker, omem.quad_ker

    def rec(kw):
        return (bool(kw["is_log"]), float(kw["logx"]), tuple(np.asarray(kw["areas"], dtype=float).ravel().tolist()))

    def spy(u, **kw):
        calls.append(rec(kw))
        return real_qk(u, **kw)

    def ospy(u, **kw):
        ocalls.append(rec(kw))
        return real_oqk(u, **kw)

    def quad(f, a, b, **kw):
        v = f(0.5) + f(0.8)
        return (v, 0.0, {}) if kw.get("full_output") else (v, 0.0)

    saved = evop.integrate, evop.quad_ker, omem.quad_ker
    evop.integrate, evop.quad_ker, omem.quad_ker = types.SimpleNamespace(quad=quad), spy, ospy
    try:
        eko.solve(th, op, path)
    finally:
        evop.integrate, evop.quad_ker, omem.quad_ker = saved
    return calls, ocalls


def _check_calls(res, calls, grid, degree, is_log, sig, where):
    """mode, node and basis of every recorded kernel call against the declared (grid, degree, mode)."""
    from eko import interpolation

    ref_n = interpolation.InterpolatorDispatcher(interpolation.XGrid(list(grid), log=is_log), degree, mode_N=True)
    ref_areas = {tuple(np.asarray(bf.areas_representation, dtype=float).ravel().tolist()) for bf in ref_n}
    nodes = {float(np.log(x)) for x in grid}
    modes = {c[0] for c in calls}
    if modes != {bool(is_log)}:
        res.fail(f"{sig}/is_log-ignored", f"{where}: kernel called with is_log={sorted(modes)}")
    if not {c[1] for c in calls} <= nodes:
        res.fail(f"{sig}/foreign-node", f"{where}: kernel called at log x not on the declared grid: {sorted({c[1] for c in calls} - nodes)[:3]}")
    if not {c[2] for c in calls} <= ref_areas:
        res.fail(f"{sig}/foreign-basis", f"{where}: kernel called with a basis configuration that the declared (grid, degree, mode) does not generate")
    return ref_n


def eval_compute(case):
    """The declared interpolation settings reach the integration kernels of a real solve: every kernel call (evolution
    kernel and, when a threshold is crossed, matching kernel) carries the declared mode, a declared node and the declared
    basis; and the N-space factor that the kernel multiplies in is the Mellin transform of the declared x-space basis
    function (reference: adaptive quadrature of that function)."""
    import os

    from eko import interpolation

    res = Result()
    grid, degree, is_log = _grid(case["grid"]), case["degree"], case["is_log"]
    matching = case.get("matching")
    if matching:
        # one threshold crossing (mb = 4.5 < 10): matching of order matching[0]-1, non-singlet (+ singlet when asked)
        cfg = dict(xgrid=grid, degree=degree, is_log=is_log, mugrid=[[10.0, 5]], order=matching["order"], skip_singlet=not matching["singlet"])
        where = f"order {matching['order']} solve across the bottom threshold (singlet={matching['singlet']}), grid={case['grid']} degree={degree} is_log={is_log}"
    else:
        cfg = dict(xgrid=grid, degree=degree, is_log=is_log, mugrid=[[10.0, 4]], order=[1, 0], skip_singlet=True)
        where = f"LO non-singlet solve, grid={case['grid']} degree={degree} is_log={is_log}"
    th, op = cards.build(cfg)
    path = cards.scratch_path("c40c")
    try:
        calls, ocalls = _spied_solve(th, op, path)
    except Exception as exc:  # noqa
        res.fail("solve/raises", f"{where}: {type(exc).__name__}: {exc}")
        return res
    finally:
        try:
            os.unlink(path)
        except OSError:
            pass
    if not calls:
        res.fail("solve/no-kernel-call", f"{where}: the solve never called the integration kernel")
        return res
    ref_n = _check_calls(res, calls, grid, degree, is_log, "solve/kernel", where)
    if matching:
        if not ocalls:
            res.fail("solve/no-matching-kernel-call", f"{where}: the solve never called the matching kernel")
            return res
        _check_calls(res, ocalls, grid, degree, is_log, "solve/matching-kernel", where)
    elif ocalls:
        res.fail("solve/unexpected-matching-kernel-call", f"{where}: matching kernel called without a threshold crossing")
    # ---- linear mode: N-space factor of the kernel == Mellin transform of the declared x-space basis
    # (log mode drops boundary terms that vanish under the inversion; its formula is the subject of C35)
    itx = interpolation.InterpolatorDispatcher(interpolation.XGrid(list(grid), log=is_log), degree, mode_N=False)
    worst = 0.0
    for j in sorted({0, len(grid) // 2, len(grid) - 1}) if not (is_log or matching) else []:
        bfn, bfx = ref_n[j], itx[j]
        for k in sorted({0, max(0, j - 1), j}):
            x = grid[k]
            if x >= 1.0:
                continue
            for N in (1.5 + 0.0j, 2.0 + 1.0j, 3.2 - 4.0j):
                got = interpolation.evaluate_grid(N, is_log, float(np.log(x)), bfn.areas_representation)
                want = _mellin_ref(lambda z: bfx(z), bfx.areas, N, x, is_log)
                d = abs(got - want) / (1.0 + abs(want))
                worst = max(worst, d)
                if not d <= 1e-8:
                    res.fail(
                        f"kernel-basis/log={is_log}/not-the-mellin-transform",
                        f"{where}: basis j={j} at x_k={x}, N={N}: kernel factor {got}, quadrature of the x-space basis {want}",
                    )
    res.info = {"kernel_calls": len(calls), "matching_kernel_calls": len(ocalls), "max_worst_rel": worst}
    res.outcome = f"compute:{'matching' if matching else 'evolution'}:{is_log}:{degree}:" + ("ok" if not res.fails else "fails")
    return res


def eval_edited(case):
    """An operator card whose interpolation mode is changed by attribute assignment after construction.

    The cards are plain (non-frozen) dataclasses and attribute assignment is how eko's tutorials and benchmarks customise
    them (`op_card.xgrid = XGrid(...)`, `operator.configs.interpolation_polynomial_degree = 1`). The mode is held twice
    (configs.interpolation_is_log and the flag of the grid object): how = "configs" / "xgrid" edits one of them,
    "both" edits both. Demanded: the round trip gives an equal card (or the card is refused with a ValueError), and a
    real solve either refuses the card or uses ONE mode throughout: kernel calls == configs.interpolation_is_log of the
    stored card == flag of the grid the archive records (the grid every consumer of the operators interpolates with).
    """
    import os

    from eko.interpolation import XGrid
    from eko.io.runcards import OperatorCard
    from eko.io.struct import EKO

    res = Result()
    how, degree, start, to = case["how"], case["degree"], case["start"], case["to"]
    grid = _grid(case["grid"])
    th, op = cards.build(dict(xgrid=grid, degree=degree, is_log=start, mugrid=[[10.0, 4]], order=[1, 0], skip_singlet=True))
    if how in ("configs", "both"):
        op.configs.interpolation_is_log = to
    if how in ("xgrid", "both"):
        op.xgrid = XGrid(grid, log=to)
    cfg_flag, grid_flag = bool(op.configs.interpolation_is_log), bool(op.xgrid.log)
    where = f"card built with is_log={start}, then {how} set to {to} (configs declare log={cfg_flag}, grid object log={grid_flag}), degree {degree}"
    S = f"OperatorCard.edited/how={how}"
    refused = 0
    # ---- round trip
    try:
        op.raw
        raw_ok = True
    except ValueError:
        raw_ok, refused = False, refused + 1
    except Exception:  # noqa  (reported by roundtrip below)
        raw_ok = True
    if raw_ok:
        roundtrip(res, op, OperatorCard, S + "/roundtrip", where, logsig=S + "/roundtrip/xgrid-log-differs")
    # ---- real solve
    th2, op2 = cards.build(dict(xgrid=grid, degree=degree, is_log=start, mugrid=[[10.0, 4]], order=[1, 0], skip_singlet=True))
    if how in ("configs", "both"):
        op2.configs.interpolation_is_log = to
    if how in ("xgrid", "both"):
        op2.xgrid = XGrid(grid, log=to)
    path = cards.scratch_path("c40e")
    try:
        try:
            calls, _ = _spied_solve(th2, op2, path)
        except ValueError:
            refused += 1
            calls = None
        except Exception as exc:  # noqa
            res.fail(S + "/solve/raises", f"{where}: {type(exc).__name__}: {exc}")
            calls = None
        if calls is not None:
            if not calls:
                res.fail(S + "/solve/no-kernel-call", f"{where}: the solve never called the integration kernel")
            used = {c[0] for c in calls}
            with EKO.read(path) as e:
                rec_grid = bool(e.xgrid.log)
                rec_cfg = bool(e.operator_card.configs.interpolation_is_log)
                rec_card_grid = bool(e.operator_card.xgrid.log)
                rec_degree = e.operator_card.configs.interpolation_polynomial_degree
                same_grid = np.asarray(e.xgrid.raw).tobytes() == np.asarray(grid, dtype=float).tobytes()
            if len(used) > 1:
                res.fail(S + "/solve/mixed-modes", f"{where}: kernel called with is_log={sorted(used)}")
            if rec_cfg != cfg_flag:
                res.fail(S + "/solve/stored-configs-differ", f"{where}: the stored card declares interpolation_is_log={rec_cfg}")
            if used and used != {rec_cfg}:
                res.fail(S + "/solve/kernel-mode-differs-from-configs", f"{where}: kernel called with is_log={sorted(used)}, configs declare {rec_cfg}")
            if used and used != {rec_grid}:
                res.fail(
                    S + "/solve/archive-grid-flag-differs-from-kernel-mode",
                    f"{where}: kernel called with is_log={sorted(used)} but the archive records its grid with log={rec_grid} "
                    f"(stored operator card: grid log={rec_card_grid}, configs {rec_cfg})",
                )
            if rec_degree != degree or not same_grid:
                res.fail(S + "/solve/grid-or-degree", f"{where}: stored degree {rec_degree}, grid unchanged: {same_grid}")
            if used and how == "both" and used != {bool(to)}:
                res.fail(S + "/solve/edit-ignored", f"{where}: both declarations were set to {to}, kernel called with is_log={sorted(used)}")
    finally:
        try:
            os.unlink(path)
        except OSError:
            pass
    res.info = {"refusals": refused}
    res.outcome = f"edited:{how}:" + ("refused" if refused == 2 else "ok" if not res.fails else "fails")
    return res


def eval_tupleform(case):
    """from_dict of a nested DictLike given positionally (a sequence instead of a mapping) equals the mapping form."""
    from eko.io.runcards import OperatorCard, TheoryCard

    res = Result()
    if case["card"] == "theory":
        cls, raw = TheoryCard, _raw_theory()
        c = raw["couplings"]
        seq = dict(raw, couplings=[c["alphas"], c["alphaem"], c["ref"], c["em_running"]])
        if case["form"] == "tuple":
            seq["couplings"] = tuple(seq["couplings"])
    else:
        cls, raw = OperatorCard, _raw_operator()
        d = raw["debug"]
        seq = dict(raw, debug=[d["skip_singlet"], d["skip_non_singlet"]])
        if case["form"] == "tuple":
            seq["debug"] = tuple(seq["debug"])
    where = f"{cls.__name__} with its nested {'couplings' if case['card'] == 'theory' else 'debug'} given as a {case['form']}"
    try:
        a, b = cls.from_dict(raw), cls.from_dict(seq)
    except Exception as exc:  # noqa
        res.fail(f"{cls.__name__}.from_dict/positional-form-raises", f"{where}: {type(exc).__name__}: {exc}")
        return res
    d = cn.first_diff(cn.canon(a), cn.canon(b))
    if d:
        res.fail(f"{cls.__name__}.from_dict/positional-form-differs", f"{where}: mapping form vs positional form {d}")
    roundtrip(res, b, cls, f"{cls.__name__}.roundtrip", where)
    res.outcome = "tupleform:" + ("ok" if not res.fails else "fails")
    return res


EVAL = dict(
    theory=eval_theory, operator=eval_operator, plant=eval_plant, xgridobj=eval_xgridobj,
    synthetic=eval_synthetic, managers=eval_managers, compute=eval_compute, edited=eval_edited, tupleform=eval_tupleform,
)


def evaluate(case):
    res = EVAL[case["kind"]](case)
    # one message per signature and case; the number of inner points that failed is kept in the message
    first, count = {}, {}
    for f in res.fails:
        count[f.signature] = count.get(f.signature, 0) + 1
        first.setdefault(f.signature, f)
    for sig, f in first.items():
        if count[sig] > 1:
            f.message += f"  [{count[sig]} inner points of this case fail alike]"
    res.fails = list(first.values())
    return res


def run(ctx):
    from vf.core.cards import METHODS

    cases = []
    for order, scheme in itertools.product(ORDERS, SCHEMES):
        cases.append(dict(kind="theory", order=order, scheme=scheme))
    for m, sv, inv in itertools.product(METHODS, SVS, INVS):
        cases.append(dict(kind="operator", method=m, sv=sv, inversion=inv, tier=ctx.tier))
    for card, plants in PLANTS.items():
        for leaf, kind in plants:
            cases.append(dict(kind="plant", card=card, leaf=leaf, npkind=kind))
        cases.append(dict(kind="plant", card=card, leaf="*", npkind="all"))
    for holder, g, log in itertools.product(["operator", "metadata"], GRID_NAMES, [True, False]):
        cases.append(dict(kind="xgridobj", holder=holder, grid=g, log=log))
    nsyn = 0
    for r in range(len(syn.FEATURES) + 1):
        for feats in itertools.combinations(syn.FEATURES, r):
            for hint in ["np.ndarray", "npt.NDArray"] if "array" in feats else ["np.ndarray"]:
                cases.append(dict(kind="synthetic", features=list(feats), hint=hint))
                nsyn += 1
    for g, degree, is_log in itertools.product(["five", "smallx"], [1, 2], [True, False]):
        cases.append(dict(kind="managers", grid=g, degree=degree, is_log=is_log))
    for g, degree, is_log in itertools.product(["five"] if not ctx.thorough() else ["five", "smallx", "make_grid"], [1, 2], [True, False]):
        cases.append(dict(kind="compute", grid=g, degree=degree, is_log=is_log))
    # solves that cross a threshold: the matching kernel has its own call site for the interpolation mode
    matchings = [dict(order=[2, 0], singlet=False)]
    if ctx.thorough():
        matchings += [dict(order=[2, 0], singlet=True), dict(order=[3, 0], singlet=True)]
    n_match = 0
    for mt, g, degree, is_log in itertools.product(matchings, ["five"] if not ctx.thorough() else ["five", "smallx", "make_grid"], [1, 2], [True, False]):
        cases.append(dict(kind="compute", grid=g, degree=degree, is_log=is_log, matching=mt))
        n_match += 1
    n_edit = 0
    for how, start, degree in itertools.product(["configs", "xgrid", "both"], [True, False], [1, 2]):
        cases.append(dict(kind="edited", how=how, start=start, to=not start, degree=degree, grid="five"))
        n_edit += 1
    for card, form in itertools.product(["theory", "operator"], ["list", "tuple"]):
        cases.append(dict(kind="tupleform", card=card, form=form))
    results = ctx.run_cases(cases, evaluate)
    inner = sum((r[1][3] or {}).get("max_inner_points", 1) for r in results)
    n_th = len(list(_product(TH_INNER)))
    n_op = len(list(_product(OP_INNER)))
    ctx.rule = (
        f"theory cards: {len(ORDERS)} orders x {len(SCHEMES)} mass schemes x complete inner product of {n_th} "
        f"(ratios incl. inf, N3LO variations, matching order, fhmruvv, em running, xif, reference) ; operator cards: "
        f"{len(METHODS)} methods x {len(SVS)} sv x {len(INVS)} inversions x "
        + (f"complete inner product of {n_op} " if ctx.thorough() else "inner union of the interpolation product (24) and the flags product (48) ")
        +
        "(degree, log flag, 4 grids incl. generated ones, polarised/time-like, 3 mu grids, max order); "
        f"{sum(len(v) + 1 for v in PLANTS.values())} NumPy plants into real cards; 16 XGrid-object holders; "
        f"{nsyn} synthetic DictLike classes (all subsets of {len(syn.FEATURES)} field features incl. a nested plain dataclass x 2 array-hint spellings) "
        "with every leaf planted (float64/int64/bool_ everywhere; float32, float16, int32, uint8, int8, str_ at the plain leaves), Optional[bool]/Optional[str] "
        "holding None / falsy values, array fields holding special-value, empty, bool, 3-d, strided and 0-d arrays; "
        f"8 real EKOs for runner.parts._managers; real LO solves (kernel calls recorded: mode, node, basis; kernel basis factor vs quadrature of the x-space basis) for (grid, degree, mode); "
        f"{n_match} real solves across the bottom threshold with the matching kernel recorded as well (NLO non-singlet"
        + ("; NLO and NNLO singlet" if ctx.thorough() else "")
        + f"); {n_edit} cards edited after construction (configs / grid object / both x start mode x degree) through round trip and a real solve; "
        f"4 positional-form inputs; every reloaded card's int-typed leaves are Python ints; {inner} objects round-tripped in total; non-trivial = all"
    )
    ctx.assumptions += [
        "equality is field-by-field value equality with all NaNs identified and XGrid compared by grid bits and log flag "
        "(eko's own XGrid.__eq__ ignores the flag, dataclass == is not NaN-aware)",
        "NumPy scalar kinds explored: float64, int64, bool_ at every leaf; float32, float16, int32, uint8, int8, str_ at the plain scalar leaves",
        "a 0-d array in an array-typed field may come back as the Python scalar of the same value (dictlike.py documents "
        "'do not apply array on scalars'; the dataclass == of eko also calls the two equal): value demanded, container kind not",
        "a card carrying contradictory declarations of the interpolation mode (edited after construction) may be refused with a ValueError "
        "instead of being round-tripped / solved; if it is accepted, one mode must be used throughout",
        "Unions with two non-None members (e.g. Union[int, float], where the first member that accepts the value wins) are not "
        "explored: no eko card uses one and the quantifier does not list them",
        "nothing is claimed for field types outside those enumerated",
    ]
