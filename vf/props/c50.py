"""C50 VFNS results depend on the matching scale only beyond the matching order (X-conf, S2).

For order n with matching order n-1, the evolution across one heavy-quark threshold is solved
through the real runner (moment probe: exact Mellin moments, flavour space) with the matching
ratio k in {1/2, 0.7, 1.4, 2} and with k = 1; the coupling is scaled through
alpha_s(ref) = 0.35 lambda, lambda = 2^-3 .. 2^-8. The difference D(lambda) = E_k - E_1 must vanish at
least like a_s^n in EVERY flavour channel. It is judged per block (output block x input block) of the
flavour-space matrix: outputs {g, light quarks q, heavy quark h, non-singlet combinations ns} x inputs
{g, q, h} (+ the rows/columns that take no part: photon, heavier quarks), by two oracles:
  * exponents: local exponents of the ladder max|D| of the block (asymptotic-window rule, vf.core.scaling);
  * extrapolation: D / a^(n-1), a = alpha_s(ref)/4pi, of every element of the block, extrapolated to a -> 0 through
    the last EXTRAP_POINTS ladder points (polynomial in lambda): this is the coefficient of a^(n-1) in D and has to
    vanish (a small O(a_s^(n-1)) contamination bends the exponents only slowly, but is the constant term of this
    extrapolation; matching elements have coefficients of order 0.1-10, the genuine findings show >= 0.1).
Blocks that are recorded as known findings carry a pinned exponent e0 < n: they keep the listed signature only while
they vanish like a_s^e0 (no term a^(e0-1), a term a^e0 of the recorded size); any other failure of such a block has the
suffix /beyond-known.
"""

import math

import numpy as np

from vf.core import probe, scaling
from vf.core.ctx import Result

ID = "C50"
LEVEL = "exploration"
TECHNIQUE = "exhaustive enumeration of (order, kind, direction, ratio, method, side of the reference coupling) through the real runner at the moment seam; scaling-exponent and zero-coupling-extrapolation oracles per (output block, input block)"
LEVEL_TEXT = (
    "every combination of order 1-3 x unpolarised/polarised/time-like x upward/downward crossing x 4 matching ratios is solved on a "
    "6-step coupling ladder; the matching-scale dependence of every block {g, q, h, ns} x {g, q, h} of the flavour-space operator must "
    "vanish like a_s^n (exponent rule, and D/a_s^(n-1) extrapolated to zero coupling must vanish); the reference coupling is given above the "
    "threshold and, for the unpolarised orders 2 and 3, also below it"
)
LEVEL_NOTE = (
    "moment seam (N = 2, 3.5, 6); charm threshold only in quick (bottom, and charm+bottom on one path, added in thorough); POLE masses; "
    "lambda ladder 2^-3..2^-8; blocks recorded as known findings are only checked against their recorded exponent"
)
FLOOR_NONTRIVIAL = 10

MOMENTS = [2.0, 3.5, 6.0]
PID = probe.FLAVOR_PIDS
LAMBDAS = [2.0**-i for i in range(3, 9)]
KINDS = {"unpol": {}, "pol": dict(polarized=True), "tl": dict(time_like=True)}
RATIOS = [0.5, 0.7, 1.4, 2.0]
FLOOR = 1e-13
# extrapolation oracle
EXTRAP_POINTS = 5
EXTRAP_TOL = 2e-4
A0 = 0.35 / (4 * math.pi)  # a_s = alpha_s / 4 pi at the reference scale for lambda = 1
# pinned exponent e0 of a known finding: no term a^(e0-1) (EXTRAP_TOL) and a term a^e0 with a coefficient of at least
PIN_MIN = 1e-2

_INTR = "intrinsic"
_AHG = "A_Hg2"
_TL = "tl-nnlo"
_INTR_G = "intrinsic-radiated"


def _known_table():
    """{(kind, n, direction, out, in): (recorded exponent, cause)} of the blocks that are known not to scale like a_s^n."""
    t = {}
    for d in ("up", "down"):
        # O(a_s^2) matching elements of the intrinsic column are not implemented
        for o in ("g", "q", "h", "ns"):
            t[("unpol", 3, d, o, "h")] = (2, _INTR)
        # no matching elements at all for an intrinsic heavy quark (polarised, time-like): O(a_s); the light-quark rows only at O(a_s^2)
        for kind in ("pol", "tl"):
            for n in (2, 3):
                for o in ("g", "h", "ns"):
                    t[(kind, n, d, o, "h")] = (1, _INTR)
            t[(kind, 3, d, "q", "h")] = (2, _INTR)
        # polarised A_Hg^(2): single-log coefficient twice the RG value
        t[("pol", 3, d, "h", "g")] = (2, _AHG)
        # time-like O(a_s^2) matching unknown, set to zero
        for o, i in (("g", "g"), ("g", "q"), ("q", "q"), ("h", "g"), ("h", "q"), ("ns", "q")):
            t[("tl", 3, d, o, i)] = (2, _TL)
    # downward: the heavy quark radiated off a gluon above the threshold meets the missing polarised intrinsic elements
    t[("pol", 3, "down", "g", "g")] = (2, _INTR_G)
    return t


KNOWN = _known_table()


def _cfg(case, k, lam):
    hq = case.get("hq", 4)
    below = case.get("ref_side", "above") == "below"  # side of the crossed threshold(s) on which alpha_s is fixed
    if hq == 4:
        masses, ratios = [2.0, 50.0, 500.0], [k, "inf", "inf"]
        lo, hi = [0.8, 3], [8.0, 4]
        ref = [0.9, 3] if below else [10.0, 4]
    elif hq == 5:
        masses, ratios = [0.3, 5.0, 500.0], [1.0, k, "inf"]
        lo, hi = [2.0, 4], [20.0, 5]
        ref = [2.2, 4] if below else [30.0, 5]
    else:
        # hq == 45: charm and bottom crossed on one path with different ratios (k and 1/k); pins the indexing of the ratios
        masses, ratios = [1.0, 8.0, 500.0], [k, 1.0 / k, "inf"]
        lo, hi = [0.4, 3], [20.0, 5]
        ref = [0.45, 3] if below else [30.0, 5]
    up = case["direction"] == "up"
    c = dict(
        order=[case["n"], 0],
        matching_order=[case["n"] - 1, 0],
        method=case.get("method", "truncated"),
        masses=masses,
        ratios=ratios,
        ref=ref,
        alphas=0.35 * lam,
        init=lo if up else hi,
        mugrid=[hi if up else lo],
        iterations=8,
        inversion=case.get("inversion", "expanded"),
    )
    c.update(KINDS[case["kind"]])
    return c


def _solve(case, k, lam):
    out = probe.moment_solve(_cfg(case, k, lam), MOMENTS)
    (ep, m), = out.items()
    return m


def _neville0(xs, ys):
    """Value at 0 of the polynomial through (xs[i], ys[i]); ys are arrays."""
    P = [np.asarray(y, dtype=float) for y in ys]
    m = len(xs)
    for lev in range(1, m):
        P = [(xs[i + lev] * P[i] - xs[i] * P[i + 1]) / (xs[i + lev] - xs[i]) for i in range(m - lev)]
    return P[0]


def _coefficient(arr, m):
    """Largest |coefficient of a^m| over the elements arr[ladder step, element], a = alpha_s(ref) / 4 pi: D / a^m extrapolated to a = 0."""
    lam = np.array(LAMBDAS)
    f = arr / (A0 * lam[:, None]) ** m
    f0 = _neville0(list(lam[-EXTRAP_POINTS:]), [f[j] for j in range(len(lam) - EXTRAP_POINTS, len(lam))])
    return float(np.abs(f0).max())


def _blocks(D, hq):
    """Split D[ladder step, moment, out, in] into {(out, in): array[ladder step, elements]}."""
    heavy = (4, 5) if hq == 45 else (hq,)
    ix = PID.index
    sel = {
        "g": [ix(21)],
        "q": [i for i, p in enumerate(PID) if p not in (21, 22) and abs(p) < min(heavy)],
        "h": [i for i, p in enumerate(PID) if abs(p) in heavy],
    }
    nl = len(D)
    out = {}
    for o in "gqh":
        for i in "gqh":
            out[(o, i)] = D[:, :, sel[o]][:, :, :, sel[i]].reshape(nl, -1)
    u, ub, d, db, g = ix(2), ix(-2), ix(1), ix(-1), ix(21)
    # non-singlet combinations: valence-like q - qbar and the flavour difference (u + ubar) - (d + dbar), fed by a u quark / a gluon
    out[("ns", "q")] = np.concatenate([D[:, :, u, u] - D[:, :, ub, u], D[:, :, u, u] + D[:, :, ub, u] - D[:, :, d, u] - D[:, :, db, u]], axis=1)
    out[("ns", "g")] = np.concatenate([D[:, :, u, g] - D[:, :, ub, g], D[:, :, u, g] + D[:, :, ub, g] - D[:, :, d, g] - D[:, :, db, g]], axis=1)
    # heavy valence h - hbar fed by the heavy quark
    out[("ns", "h")] = np.concatenate([D[:, :, ix(q), ix(q)] - D[:, :, ix(-q), ix(q)] for q in heavy], axis=1)
    rest = [i for i in range(len(PID)) if i not in sel["g"] + sel["q"] + sel["h"]]
    out[("other", "any")] = np.concatenate([D[:, :, rest, :].reshape(nl, -1), D[:, :, :, rest].reshape(nl, -1)], axis=1)
    return out


def _decide(case, D, res):
    """All oracles on the difference D[ladder step, moment, out, in] = E_k - E_1."""
    n = case["n"]
    hq = case.get("hq", 4)
    kind, direction = case["kind"], case["direction"]
    where = (
        f"n={n} kind={kind} direction={direction} ratio={case['ratio']} hq={hq} method={case.get('method', 'truncated')} "
        f"inversion={case.get('inversion', 'expanded')} ref_side={case.get('ref_side', 'above')}"
    )
    detail = {}
    classes = {"light": None, "intrinsic": None}
    deficit = extrap = pin_below = pin_at_inv = 0.0
    n_known = n_decided = 0
    anything = False
    for (o, i), arr in _blocks(D, hq).items():
        rr = [float(np.abs(a).max()) for a in arr]
        if any(not math.isfinite(r) for r in rr):
            res.fail(f"exponent/{kind}/n={n}/{direction}/out={o}/in={i}/non-finite", f"{where} block {o}<-{i}: non-finite difference {rr}")
            continue
        if max(rr) > FLOOR:
            anything = True
        ok, inf = scaling.judge(rr, n, floor=FLOOR)
        usable = [e for e in scaling.local_exponents(rr, FLOOR) if e is not None]
        reasons = [] if ok else [inf.get("reason", "exponent rule")]
        # extrapolation of D / a^(n-1) to zero coupling: the coefficient of a^(n-1), a = alpha_s(ref) / 4 pi, of every element
        stat = _coefficient(arr, n - 1)
        inf["coefficient_of_a^(n-1)"] = float(f"{stat:.3e}")
        if not stat <= EXTRAP_TOL:
            reasons.append(f"the difference has a term a_s^{n - 1} with coefficient {stat:.3g} (extrapolation of D/a^{n - 1} to a = 0; tolerance {EXTRAP_TOL})")
        rich = 2 * usable[-1] - usable[-2] if len(usable) >= 2 else None
        known = KNOWN.get((kind, n, direction, o, i))
        if known is None and o in "gqh" and i in "gqh":
            cls = "intrinsic" if i == "h" else "light"
            classes[cls] = rr if classes[cls] is None else [max(a, b) for a, b in zip(classes[cls], rr)]
        if max(rr) > FLOOR or reasons:
            detail[f"{o}<-{i}"] = inf
        if not reasons:
            n_decided += 1
            if usable and rr[-1] > 100 * FLOOR:
                deficit = max(deficit, n - usable[-1])
            extrap = max(extrap, stat)
            continue
        sig = f"exponent/{kind}/n={n}/{direction}/out={o}/in={i}"
        if known is not None:
            # the recorded wrong behaviour: the block vanishes like a_s^e0 with the recorded e0 < n, nothing worse, nothing else:
            # no term a^(e0-1) (same rule as above, one or two orders lower) and a term a^e0 of the recorded size (>= 0.1 measured)
            n_known += 1
            e0 = known[0]
            below, at = _coefficient(arr, e0 - 1), _coefficient(arr, e0)
            inf["pin"] = {"recorded_exponent": e0, "coefficient_of_a^(e0-1)": float(f"{below:.3e}"), "coefficient_of_a^e0": float(f"{at:.3e}"), "richardson_exponent": None if rich is None else round(rich, 4)}
            if not below <= EXTRAP_TOL or not at >= PIN_MIN:
                sig += "/beyond-known"
                reasons.append(
                    f"known finding ({known[1]}) recorded as vanishing like a_s^{e0}: coefficient of a_s^{e0 - 1} is {below:.3g} (must be <= {EXTRAP_TOL}), "
                    f"coefficient of a_s^{e0} is {at:.3g} (must be >= {PIN_MIN})"
                )
            else:
                pin_below = max(pin_below, below)
                pin_at_inv = max(pin_at_inv, 1.0 / at)
        res.fail(sig, f"{where} block {o}<-{i}: dependence on the matching ratio does not vanish like a_s^{n}: {'; '.join(reasons)}: {inf}")
    # the former rule on whole input classes (all outputs x light inputs / x heavy-quark inputs), on the blocks that are not known findings
    for cls, rr in classes.items():
        if rr is None:
            continue
        ok, inf = scaling.judge(rr, n, floor=FLOOR)
        if not ok:
            res.fail(f"exponent/{kind}/n={n}/{direction}/class={cls}", f"{where} class {cls} (without the blocks recorded as known findings): dependence on the matching ratio does not vanish like a_s^{n}: {inf}")
    res.info = {
        "max_deficit_last_exponent": max(0.0, deficit),
        "max_coefficient_below_order": extrap,
        "max_known_coefficient_below_recorded_order": pin_below,
        "max_known_inverse_coefficient_at_recorded_order": pin_at_inv,
        "blocks_decided": n_decided,
        "blocks_known_failing": n_known,
        "detail": detail,
    }
    res.outcome = f"{kind}:n={n}:{direction}:{'depends' if anything else 'independent'}"
    res.nontrivial = anything
    return res


def evaluate(case):
    res = Result()
    n = case["n"]
    D = []
    try:
        for lam in LAMBDAS:
            c = _solve(case, 1.0, lam)
            v = _solve(case, case["ratio"], lam)
            D.append(v - c)  # [moment, out, in]
    except (NotImplementedError, ValueError) as e:
        res.outcome = f"refused:{str(e)[:40]}"
        res.nontrivial = False
        return res
    except Exception as e:  # noqa
        res.fail(f"solve/crash/{type(e).__name__}/{case['kind']}/n={n}", f"case={case}: {type(e).__name__}: {str(e)[:200]}")
        return res
    return _decide(case, np.stack(D), res)


def _cases(thorough):
    cases = []
    for kind in KINDS:
        for n in (1, 2, 3):
            for direction in ("up", "down"):
                for ratio in RATIOS:
                    cases.append(dict(kind=kind, n=n, direction=direction, ratio=ratio))
    # exact inversion on the way down, an iterated method
    for kind in ("unpol", "pol"):
        for n in (2, 3):
            cases.append(dict(kind=kind, n=n, direction="down", ratio=2.0, inversion="exact"))
            cases.append(dict(kind=kind, n=n, direction="up", ratio=0.5, method="iterate-exact"))
    # the iterated method downward (exact coupling running, decoupling with L != 0, backward matching)
    for n in (2, 3):
        cases.append(dict(kind="unpol", n=n, direction="down", ratio=2.0, method="iterate-exact"))
    # reference coupling fixed BELOW the crossed threshold: the coupling itself is matched upward with L != 0
    for n in (2, 3):
        for direction in ("up", "down"):
            for ratio in (0.5, 2.0):
                cases.append(dict(kind="unpol", n=n, direction=direction, ratio=ratio, ref_side="below"))
    if thorough:
        for kind in KINDS:
            for n in (1, 2, 3):
                for direction in ("up", "down"):
                    for ratio in RATIOS:
                        cases.append(dict(kind=kind, n=n, direction=direction, ratio=ratio, hq=5))
                for ratio in RATIOS:
                    cases.append(dict(kind=kind, n=n, direction="down", ratio=ratio, inversion="exact"))
                    cases.append(dict(kind=kind, n=n, direction="up", ratio=ratio, method="iterate-exact"))
                for direction in ("up", "down"):
                    for ratio in (0.5, 2.0):
                        cases.append(dict(kind=kind, n=n, direction=direction, ratio=ratio, ref_side="below"))
            for n in (2, 3):
                for ratio in (0.5, 2.0):
                    cases.append(dict(kind=kind, n=n, direction="down", ratio=ratio, method="iterate-exact"))
        # charm and bottom on one path with ratios k and 1/k (beyond "one threshold": pins which ratio belongs to which quark)
        for n in (2, 3):
            for direction in ("up", "down"):
                for ratio in (0.5, 2.0):
                    for side in ("above", "below"):
                        cases.append(dict(kind="unpol", n=n, direction=direction, ratio=ratio, hq=45, ref_side=side))
    seen, uniq = set(), []
    for c in cases:
        if c.get("ref_side") == "above":
            c = {k: v for k, v in c.items() if k != "ref_side"}
        key = repr(sorted(c.items()))
        if key not in seen:
            seen.add(key)
            uniq.append(c)
    return uniq


def run(ctx):
    ctx.run_cases(_cases(ctx.thorough()), evaluate, chunksize=1)
    ctx.rule = (
        "order n = 1-3 (matching order n-1) x unpolarised/polarised/time-like x up/down across the charm"
        + (" and bottom" if ctx.thorough() else "")
        + " threshold x matching ratio in {0.5, 0.7, 1.4, 2} vs 1, + exact inversion and iterate-exact (up and down) variants, + the reference "
        "coupling given below the threshold (unpolarised n = 2, 3, ratios 0.5 and 2"
        + ("; thorough: every kind and order; charm and bottom on one path with ratios k and 1/k" if ctx.thorough() else "")
        + "); each case = its 6-step coupling ladder; every case is decided per block of the flavour-space operator: outputs {g, light "
        "quarks, heavy quark, non-singlet combinations} x inputs {g, light quark, heavy quark} + the spectator rows/columns; "
        "non-trivial = the operator depends on the ratio at all"
    )
    ctx.assumptions += [
        "asymptotic-window rule: fails only if the last two local exponents are both below n-0.25 and agree to 0.15 (or are a full unit short)",
        f"extrapolation rule: the polynomial through the last {EXTRAP_POINTS} ladder points of D/a^(n-1) (a = alpha_s(ref)/4pi) at a = 0 must be below {EXTRAP_TOL} in "
        "every element (the difference is analytic in the coupling at fixed scales)",
        f"blocks listed as known findings keep their signature only while they vanish like a^e0 with the recorded exponent e0: coefficient of a^(e0-1) below {EXTRAP_TOL} "
        f"and coefficient of a^e0 at least {PIN_MIN} (otherwise .../beyond-known); they are counted (blocks_known_failing) and excluded from the measured maxima of "
        "the deciding rules (max_deficit_last_exponent, max_coefficient_below_order)",
    ]
