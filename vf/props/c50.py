"""C50 VFNS results depend on the matching scale only beyond the matching order (X-conf, S2).

For order n with matching order n-1, the evolution across one heavy-quark threshold is solved
through the real runner (moment probe: exact Mellin moments, flavour space) with the matching
ratio k in {1/2, 0.7, 1.4, 2} and with k = 1; the coupling is scaled through
alpha_s(ref) = 0.35 lambda, lambda = 2^-3 .. 2^-8. The residual R(lambda) = max |E_k - E_1| per
channel class must vanish at least like a_s^n (asymptotic-window rule, vf.core.scaling).
Channel classes: light inputs (gluon, light quarks), and the intrinsic heavy-quark input columns.
"""

import numpy as np

from vf.core import probe, scaling
from vf.core.ctx import Result

ID = "C50"
LEVEL = "exploration"
TECHNIQUE = "exhaustive enumeration of (order, kind, direction, ratio, method) through the real runner at the moment seam; scaling-exponent oracle per channel class"
LEVEL_TEXT = (
    "every combination of order 1-3 x unpolarised/polarised/time-like x upward/downward crossing x 4 matching ratios is solved on a "
    "6-step coupling ladder; the matching-scale dependence of every flavour channel must vanish like a_s^n"
)
LEVEL_NOTE = "moment seam (N = 2, 3.5, 6); charm threshold only in quick (bottom added in thorough); POLE masses; lambda ladder 2^-3..2^-8"
FLOOR_NONTRIVIAL = 10

MOMENTS = [2.0, 3.5, 6.0]
PID = probe.FLAVOR_PIDS
LAMBDAS = [2.0**-i for i in range(3, 9)]
KINDS = {"unpol": {}, "pol": dict(polarized=True), "tl": dict(time_like=True)}
RATIOS = [0.5, 0.7, 1.4, 2.0]


def _cfg(case, k, lam):
    hq = case.get("hq", 4)
    if hq == 4:
        masses, ratios = [2.0, 50.0, 500.0], [k, "inf", "inf"]
        lo, hi, nlo = [0.8, 3], [8.0, 4], 3
        ref = [10.0, 4]
    else:
        masses, ratios = [0.3, 5.0, 500.0], [1.0, k, "inf"]
        lo, hi, nlo = [2.0, 4], [20.0, 5], 4
        ref = [30.0, 5]
    up = case["direction"] == "up"
    c = dict(
        order=[case["n"], 0],
        matching_order=[case["n"] - 1, 0],
        method=case.get("method", "truncated"),
        masses=masses,
        ratios=ratios,
        ref=ref,
        alphas=0.35 * lam,
        init=lo if up else hi,
        mugrid=[hi if up else lo],
        iterations=8,
        inversion=case.get("inversion", "expanded"),
    )
    c.update(KINDS[case["kind"]])
    return c


def _solve(case, k, lam):
    out = probe.moment_solve(_cfg(case, k, lam), MOMENTS)
    (ep, m), = out.items()
    return m


def evaluate(case):
    res = Result()
    n = case["n"]
    hq = case.get("hq", 4)
    where = f"n={n} kind={case['kind']} direction={case['direction']} ratio={case['ratio']} hq={hq} method={case.get('method', 'truncated')} inversion={case.get('inversion', 'expanded')}"
    heavy_cols = [PID.index(hq), PID.index(-hq)]
    light_cols = [i for i, p in enumerate(PID) if abs(p) < hq or p == 21]
    resid = {"light": [], "intrinsic": []}
    try:
        for lam in LAMBDAS:
            c = _solve(case, 1.0, lam)
            v = _solve(case, case["ratio"], lam)
            d = np.abs(c - v)  # [moment, out, in]
            resid["light"].append(float(d[:, :, light_cols].max()))
            resid["intrinsic"].append(float(d[:, :, heavy_cols].max()))
    except (NotImplementedError, ValueError) as e:
        res.outcome = f"refused:{str(e)[:40]}"
        res.nontrivial = False
        return res
    except Exception as e:  # noqa
        res.fail(f"solve/crash/{type(e).__name__}/{case['kind']}/n={n}", f"{where}: {type(e).__name__}: {str(e)[:200]}")
        return res
    info = {}
    for cls, rr in resid.items():
        ok, inf = scaling.judge(rr, n, floor=1e-13)
        info[cls] = inf
        if "last_two" in inf:
            info[f"max_deficit_{cls}"] = max(0.0, n - min(inf["last_two"]))
        if not ok:
            res.fail(
                f"exponent/{case['kind']}/n={n}/{case['direction']}/class={cls}",
                f"{where} class {cls}: dependence on the matching ratio does not vanish like a_s^{n}: {inf}",
            )
    res.info = {"max_deficit_light": info.get("max_deficit_light", 0.0), "detail": info}
    allzero = all(r <= 1e-13 for rr in resid.values() for r in rr)
    res.outcome = f"{case['kind']}:n={n}:{case['direction']}:{'independent' if allzero else 'depends'}"
    res.nontrivial = not allzero
    return res


def run(ctx):
    cases = []
    for kind in KINDS:
        for n in (1, 2, 3):
            for direction in ("up", "down"):
                for ratio in RATIOS:
                    cases.append(dict(kind=kind, n=n, direction=direction, ratio=ratio))
    # exact inversion on the way down, an iterated method
    for kind in ("unpol", "pol"):
        for n in (2, 3):
            cases.append(dict(kind=kind, n=n, direction="down", ratio=2.0, inversion="exact"))
            cases.append(dict(kind=kind, n=n, direction="up", ratio=0.5, method="iterate-exact"))
    if ctx.thorough():
        for kind in KINDS:
            for n in (1, 2, 3):
                for direction in ("up", "down"):
                    for ratio in RATIOS:
                        cases.append(dict(kind=kind, n=n, direction=direction, ratio=ratio, hq=5))
                for ratio in RATIOS:
                    cases.append(dict(kind=kind, n=n, direction="down", ratio=ratio, inversion="exact"))
                    cases.append(dict(kind=kind, n=n, direction="up", ratio=ratio, method="iterate-exact"))
    seen, uniq = set(), []
    for c in cases:
        key = repr(sorted(c.items()))
        if key not in seen:
            seen.add(key)
            uniq.append(c)
    ctx.run_cases(uniq, evaluate, chunksize=1)
    ctx.rule = (
        "order n = 1-3 (matching order n-1) x unpolarised/polarised/time-like x up/down across the charm"
        + (" and bottom" if ctx.thorough() else "")
        + " threshold x matching ratio in {0.5, 0.7, 1.4, 2} vs 1, + exact inversion and iterate-exact variants; each case = its 6-step "
        "coupling ladder; channel classes: light inputs, intrinsic heavy-quark inputs; non-trivial = the operator depends on the ratio at all"
    )
    ctx.assumptions += [
        "asymptotic-window rule: fails only if the last two local exponents are both below n-0.25 and agree to 0.15 (or are a full unit short)",
    ]
