"""C20 beta-function and mass anomalous-dimension coefficients equal the literature values.

Complete by construction: every coefficient function of eko.beta / eko.gamma is evaluated at
nf = 0..6 (and nl = 2,3).  For the QCD coefficients (polynomials in nf of known degree d) the
polynomial is reconstructed exactly from the values at nf = 0..d and every monomial coefficient is
compared with the literature table (vf/ref/c20_tables.py, typed from the papers in three shapes that
are cross-checked at import); the values at nf = d+1..6 must lie on the same polynomial.  Together
this is equality as polynomials.  The QED/mixed coefficients (not polynomial in nf: they depend on
the up/down content) are compared value by value.  The dispatchers must hand out the very same
numbers.
"""

from fractions import Fraction as F

from vf.core.ctx import Result

ID = "C20"
LEVEL = "exploration"
TECHNIQUE = "complete evaluation on nf 0-6 x nl 2-3 + exact polynomial reconstruction vs literature table"
LEVEL_TEXT = (
    "every coefficient function is compared with an independently typed literature table at all nf 0-6 "
    "(nl 2-3); for the nf-polynomials degree+1 points decide equality of the polynomials, so the "
    "property is decided completely for SU(3)"
)
LEVEL_NOTE = (
    "trusts the literature table vf/ref/c20_tables.py (exact rational+zeta form cross-checked at import "
    "against the printed decimals and the colour-factor forms); NC=3 only; for nf=1 either of u or d is "
    "accepted as the single active quark"
)
FLOOR_NONTRIVIAL = 10

NFS = list(range(7))
NLS = [2, 3]

QCD_POLY = [
    ("beta.beta_qcd_as2", "beta", [2, 0]),
    ("beta.beta_qcd_as3", "beta", [3, 0]),
    ("beta.beta_qcd_as4", "beta", [4, 0]),
    ("beta.beta_qcd_as5", "beta", [5, 0]),
    ("gamma.gamma_qcd_as1", "gamma", 1),
    ("gamma.gamma_qcd_as2", "gamma", 2),
    ("gamma.gamma_qcd_as3", "gamma", 3),
    ("gamma.gamma_qcd_as4", "gamma", 4),
]
QED_FN = [
    ("beta.beta_qed_aem2", ["qed", 0, 2], True),
    ("beta.beta_qed_aem3", ["qed", 0, 3], True),
    ("beta.beta_qed_aem2as1", ["qed", 1, 2], False),
    ("beta.beta_qcd_as2aem1", ["qcd", 2, 1], False),
]


def _fn(name):
    import eko.beta
    import eko.gamma

    mod, f = name.split(".")
    return getattr({"beta": eko.beta, "gamma": eko.gamma}[mod], f)


def _exact(x):
    """float -> exact Fraction."""
    return F(float(x))


def _interp_coeffs(ys):
    """Exact monomial coefficients of the polynomial through (i, ys[i]), i = 0..d (Newton forward)."""
    d = len(ys) - 1
    diffs = [list(ys)]
    for _ in range(d):
        prev = diffs[-1]
        diffs.append([prev[i + 1] - prev[i] for i in range(len(prev) - 1)])
    # p(x) = sum_k Delta^k y0 * binom(x, k)
    coeffs = [F(0)] * (d + 1)
    fact = F(1)
    basis = [F(1)]  # x(x-1)...(x-k+1) as monomial coefficients
    for k in range(d + 1):
        if k > 0:
            fact *= k
            # multiply basis by (x - (k-1))
            nb = [F(0)] * (len(basis) + 1)
            for i, c in enumerate(basis):
                nb[i + 1] += c
                nb[i] -= (k - 1) * c
            basis = nb
        for i, c in enumerate(basis):
            coeffs[i] += diffs[k][0] * c / fact
    return coeffs


def _mpf(fr):
    import mpmath as mp

    return mp.mpf(fr.numerator) / fr.denominator


def _eval_poly(case):
    import mpmath as mp

    from vf.ref import c20_tables as tab

    name, fam, key = case["fn"], case["family"], case["key"]
    f = _fn(name)
    table = tab.BETA_QCD[tuple(key)] if fam == "beta" else tab.GAMMA_M[key]
    d = len(table) - 1
    res = Result()
    vals = []
    for nf in NFS:
        try:
            v = f() if name.endswith("gamma_qcd_as1") else f(nf)
        except Exception as e:  # noqa
            res.fail(f"{name}/raises", f"nf={nf}: {type(e).__name__}: {e}")
            return res
        vals.append(_exact(v))
    coeffs = _interp_coeffs(vals[: d + 1])
    vmax = max(abs(v) for v in vals)
    max_rel = 0.0
    for i, (c, t) in enumerate(zip(coeffs, table)):
        ref = tab.tval(t)
        scale = tab.tabs(t)
        tol = mp.mpf("1e-10") * scale + mp.mpf("1e-13") * _mpf(vmax)
        dev = abs(_mpf(c) - ref)
        if scale > 0 and dev <= tol:
            max_rel = max(max_rel, float(dev / scale))
        if dev > tol:
            res.fail(
                f"{name}/nf^{i}",
                f"coefficient of nf^{i} reconstructed from {name}(nf=0..{d}) is {mp.nstr(_mpf(c), 17)}, "
                f"literature {mp.nstr(ref, 17)} (difference {mp.nstr(dev, 5)}); "
                f"e.g. {name}({i if i else 0}) = {float(vals[i if i else 0])!r} vs literature "
                f"{mp.nstr(tab.poly_mp(table, i if i else 0), 17)}",
            )
    max_poly = 0.0
    for nf in NFS[d + 1 :]:
        p = sum(c * F(nf) ** i for i, c in enumerate(coeffs))
        dev = abs(_mpf(vals[nf] - p))
        sc = tab.poly_abs_mp(table, nf)
        max_poly = max(max_poly, float(dev / sc))
        if dev > mp.mpf("1e-12") * sc:
            res.fail(
                f"{name}/not-a-degree-{d}-polynomial",
                f"{name}({nf}) = {float(vals[nf])!r} but the polynomial through nf=0..{d} gives {mp.nstr(_mpf(p), 17)}",
            )
    res.info = {"max_rel_dev_monomial_passing": max_rel, "max_rel_dev_offlattice_nf": max_poly, "degree": d}
    res.outcome = f"degree={d}"
    return res


def _eval_qed(case):
    import mpmath as mp

    from vf.ref import c20_tables as tab

    name, key, has_nl = case["fn"], tuple(case["key"]), case["has_nl"]
    f = _fn(name)
    res = Result()
    max_rel = 0.0
    n = 0
    for nl in NLS if has_nl else [None]:
        for nf in NFS:
            try:
                v = f(nf, nl) if has_nl else f(nf)
            except Exception as e:  # noqa
                res.fail(f"{name}/raises", f"nf={nf} nl={nl}: {type(e).__name__}: {e}")
                continue
            sets = tab.ACTIVE_NF1 if nf == 1 else [tab.ACTIVE[nf]]
            refs = [tab.qed_coeff(key, fl, nl if has_nl else 0) for fl in sets]
            devs = [abs(_mpf(_exact(v)) - _mpf(r)) for r in refs]
            j = min(range(len(devs)), key=lambda i: devs[i])
            sc = max(abs(_mpf(refs[j])), mp.mpf(1))
            max_rel = max(max_rel, float(devs[j] / sc))
            n += 1
            if devs[j] > mp.mpf("1e-13") * sc:
                res.fail(
                    f"{name}/value" + (f"/nl={nl}" if False else ""),
                    f"{name}(nf={nf}" + (f", nl={nl}" if has_nl else "") + f") = {float(v)!r}, "
                    f"literature (quarks {sets[j]!r}) {refs[j]} = {float(refs[j])!r}",
                )
    res.info = {"max_rel_dev_qed": max_rel, "points": n}
    res.outcome = "qed-table"
    return res


def _eval_dispatch(case):
    import eko.beta as b
    import eko.gamma as g

    res = Result()
    which = case["fn"]
    n = 0
    refused = 0
    if which == "beta_qcd":
        table = {(2, 0): b.beta_qcd_as2, (3, 0): b.beta_qcd_as3, (4, 0): b.beta_qcd_as4, (5, 0): b.beta_qcd_as5, (2, 1): b.beta_qcd_as2aem1}
        for k, f in table.items():
            for nf in NFS:
                got, want = b.beta_qcd(k, nf), f(nf)
                n += 1
                if got != want:
                    res.fail(f"beta.beta_qcd/k={k}", f"beta_qcd({k},{nf}) = {got!r} but {f.__name__}({nf}) = {want!r}")
                if k != (2, 0):
                    gb, wb = b.b_qcd(k, nf), f(nf) / b.beta_qcd_as2(nf)
                    if gb != wb:
                        res.fail(f"beta.b_qcd/k={k}", f"b_qcd({k},{nf}) = {gb!r} but {f.__name__}/beta0 = {wb!r}")
                else:
                    gb = b.b_qcd(k, nf)  # the leading entry of the b-vector of the expanded couplings
                    if gb != 1.0:
                        res.fail(f"beta.b_qcd/k={k}", f"b_qcd({k},{nf}) = {gb!r}: beta0/beta0 must be exactly 1.0")
        for k in [(6, 0), (3, 1), (1, 0), (2, 2), (0, 2)]:
            for nf in NFS:
                try:
                    v = b.beta_qcd(k, nf)
                except ValueError:
                    refused += 1
                    continue
                # no published coefficient is implemented under this key: any number handed out is not "the published value"
                # (e.g. a silent 0.0 truncates the RGE)
                res.fail("beta.beta_qcd/unimplemented-key-accepted", f"beta_qcd({k},{nf}) returns {v!r}; eko implements no coefficient for this key, it has to refuse (ValueError)")
    elif which == "beta_qed":
        for nl in NLS:
            table = {
                (0, 2): lambda nf: b.beta_qed_aem2(nf, nl),
                (0, 3): lambda nf: b.beta_qed_aem3(nf, nl),
                (1, 2): lambda nf: b.beta_qed_aem2as1(nf),
            }
            for k, f in table.items():
                for nf in NFS:
                    got, want = b.beta_qed(k, nf, nl), f(nf)
                    n += 1
                    if got != want:
                        res.fail(f"beta.beta_qed/k={k}", f"beta_qed({k},{nf},{nl}) = {got!r} but the coefficient function gives {want!r}")
                    if k != (0, 2):
                        gb, wb = b.b_qed(k, nf, nl), f(nf) / b.beta_qed_aem2(nf, nl)
                        if gb != wb:
                            res.fail(f"beta.b_qed/k={k}", f"b_qed({k},{nf},{nl}) = {gb!r} but ratio = {wb!r}")
                    else:
                        gb = b.b_qed(k, nf, nl)
                        if gb != 1.0:
                            res.fail(f"beta.b_qed/k={k}", f"b_qed({k},{nf},{nl}) = {gb!r}: beta0/beta0 must be exactly 1.0")
        for k in [(0, 4), (2, 2), (2, 0), (1, 3)]:
            for nl in NLS:
                for nf in NFS:
                    try:
                        v = b.beta_qed(k, nf, nl)
                    except ValueError:
                        refused += 1
                        continue
                    res.fail("beta.beta_qed/unimplemented-key-accepted", f"beta_qed({k},{nf},{nl}) returns {v!r}; eko implements no coefficient for this key, it has to refuse (ValueError)")
    elif which == "gamma":
        table = {1: lambda nf: g.gamma_qcd_as1(), 2: g.gamma_qcd_as2, 3: g.gamma_qcd_as3, 4: g.gamma_qcd_as4}
        for k, f in table.items():
            for nf in NFS:
                got, want = g.gamma(k, nf), f(nf)
                n += 1
                if got != want:
                    res.fail(f"gamma.gamma/order={k}", f"gamma({k},{nf}) = {got!r} but gamma_qcd_as{k}({nf}) = {want!r}")
        for k in [0, 5, 6]:
            for nf in NFS:
                try:
                    v = g.gamma(k, nf)
                except ValueError:
                    refused += 1
                    continue
                res.fail("gamma.gamma/unimplemented-order-accepted", f"gamma({k},{nf}) returns {v!r}; eko implements no mass anomalous dimension at this order, it has to refuse (ValueError)")
    if res.outcome == "ok":
        res.outcome = f"dispatch-ok/refused={refused}"
    if res.info is None:
        res.info = {"points": n, "refused_unimplemented": refused}
    return res


def _eval_constants(case):
    import mpmath as mp

    from eko import constants as c

    res = Result()
    want = {
        "NC": 3,
        "TR": mp.mpf(1) / 2,
        "CA": 3,
        "CF": mp.mpf(4) / 3,
        "eu2": mp.mpf(4) / 9,
        "ed2": mp.mpf(1) / 9,
        "zeta2": mp.zeta(2),
        "zeta3": mp.zeta(3),
        "zeta4": mp.zeta(4),
        "zeta5": mp.zeta(5),
    }
    mx = 0.0
    for k, w in want.items():
        got = getattr(c, k)
        dev = abs(_mpf(_exact(got)) - w) / abs(w)
        mx = max(mx, float(dev))
        if dev > mp.mpf("4e-16"):
            res.fail(f"constants.{k}", f"constants.{k} = {got!r}, expected {mp.nstr(w, 18)}")
    nus = [c.uplike_flavors(nf) for nf in NFS]
    if nus[2:] != [1, 1, 2, 2, 3] or nus[0] != 0:
        res.fail("constants.uplike_flavors", f"uplike_flavors(0..6) = {nus}, expected [0, 0|1, 1, 1, 2, 2, 3]")
    res.info = {"max_rel_dev_constants": mx}
    res.outcome = "constants"
    return res


def evaluate(case):
    """A coefficient function that raises on a point of the lattice is a violation of its own, not a harness error."""
    try:
        return _evaluate(case)
    except Exception as exc:  # noqa
        import traceback

        tb = traceback.extract_tb(exc.__traceback__)
        site = next((f"{t.filename.split('/src/')[-1]}:{t.name}" for t in reversed(tb) if "/src/" in t.filename), "?")
        res = Result()
        res.fail(
            f"{case.get('fn', case['kind'])}/raises/{type(exc).__name__}",
            f"case {case}: {type(exc).__name__}: {str(exc)[:160]} at {site}",
        )
        res.outcome = "raises"
        return res


def _evaluate(case):
    kind = case["kind"]
    if kind == "poly":
        return _eval_poly(case)
    if kind == "qed":
        return _eval_qed(case)
    if kind == "dispatch":
        return _eval_dispatch(case)
    if kind == "constants":
        return _eval_constants(case)
    raise ValueError(kind)


def run(ctx):
    cases = [{"kind": "poly", "fn": n, "family": fam, "key": key} for n, fam, key in QCD_POLY]
    cases += [{"kind": "qed", "fn": n, "key": key, "has_nl": h} for n, key, h in QED_FN]
    cases += [{"kind": "dispatch", "fn": n} for n in ("beta_qcd", "beta_qed", "gamma")]
    cases += [{"kind": "constants"}]
    ctx.run_cases(cases, evaluate, parallel=False)
    ctx.rule = (
        "one case per coefficient function (8 QCD nf-polynomials, 4 QED/mixed functions), per dispatcher "
        "(beta_qcd+b_qcd, beta_qed+b_qed, gamma) and one for the constants; inside a case the function is "
        "evaluated at every nf 0-6 (x nl 2,3 where it takes nl): the polynomial through nf=0..deg is "
        "reconstructed in exact rational arithmetic and each monomial coefficient compared with the "
        "literature, the remaining nf must lie on that polynomial (=> equality as polynomials); QED values "
        "compared one by one; dispatchers must return bit-identical numbers to the functions, b_qcd((2,0)) and b_qed((0,2)) "
        "exactly 1.0, and refuse (ValueError) every key without an implemented coefficient: beta_qcd 5 keys x nf 0-6, beta_qed 4 "
        "keys x nf 0-6 x nl 2,3, gamma orders 0,5,6 x nf 0-6. identical in "
        "quick and thorough (the set is finite and complete). non-trivial = all"
    )
    ctx.assumptions += [
        "literature table typed by hand from Herzog et al. 2017 / Vermaseren-Larin-van Ritbergen 1997 / "
        "Chetyrkin 1997 / Surguladze 1996; protected by the import-time cross-check exact form vs printed "
        "decimals (all monomials) vs colour-factor form (up to three loops) vs hand-worked QED numbers",
        "NC = 3 (update_colors not exercised)",
        "nf=1: the single active quark may be u or d",
        "tolerance 1e-10 relative per monomial (measured maximum in measured_maxima), 1e-13 for QED values",
    ]
