"""C26 real-analyticity of anomalous dimensions and operator matrix elements.

f(conj N) = conj f(N) on a lattice of complex-conjugate pairs (on and off the two Talbot contours),
Im f = 0 at real N away from poles, for every public entry point of ekore.anomalous_dimensions and
ekore.operator_matrix_elements x order x nf x variant x (L for matching elements).
The oracle is the statement itself (no reference values needed).
"""

from __future__ import annotations

import math

import numpy as np

from vf.core.ctx import Result

ID = "C26"
LEVEL = "exploration"
TECHNIQUE = "complete product of entry points x orders x nf x variants over a conjugate-pair lattice of N"
LEVEL_TEXT = (
    "Every entry point of ekore's anomalous dimensions and matching elements is evaluated at each "
    "lattice point N and at conj N (and at real N); all components of the returned towers must be "
    "complex conjugates (real) to 1e-10 relative."
)
LEVEL_NOTE = (
    "Decided on the lattice only (Talbot-contour points of both contours incl. the end point u=0.95, generic "
    "points, near-real points, real points 0.5..41.5); interpreted mode (NUMBA_DISABLE_JIT=1)."
)
FLOOR_NONTRIVIAL = 50

TOL = 1e-10
L_LATTICE = [-3.0, 0.0, 1.7, 3.0]


def talbot(t, r, o):
    """Talbot path written from its definition o + r (theta cot theta + i theta), theta = pi(2t-1)."""
    th = math.pi * (2 * t - 1)
    re = 1.0 if th == 0 else th / math.tan(th)
    return complex(o + r * re, r * th)


def n_lattice(thorough):
    pts = []
    ts = [0.55, 0.75, 0.95] if not thorough else [0.51, 0.55, 0.65, 0.75, 0.85, 0.95]
    # non-singlet contour r=1/2, o=0; singlet contour o=1, r = 0.4*16/(1-ln x)
    for t in ts:
        pts.append(talbot(t, 0.5, 0.0))
        for x in [1e-7, 1e-2, 0.5] if thorough else [1e-7, 0.5]:
            pts.append(talbot(t, 0.4 * 16 / (1 - math.log(x)), 1.0))
    # generic points off the contours, near the real axis, far out
    pts += [1.5 + 0.5j, 2 + 10j, 7.3 + 3.1j, 30 + 40j, 0.7 + 0.2j, 2.0 + 1e-9j, 50 + 60j, 3.0 + 1e-3j]
    if thorough:
        pts += [1.2 + 0.05j, 4.0 + 0.5j, 15.5 + 20j, 14.0 + 1j, -0.5 + 2.5j, 1.0 + 3j, 100.0 + 5j]
    real = [0.5, 1.5, 2.0, 3.0, 3.7, 10.0, 41.5]
    if thorough:
        real += [1.25, 4.0, 5.0, 7.0, 16.0, 100.0]
    return pts, real


# --------------------------------------------------------------------------- entry points
def _mods():
    import ekore.anomalous_dimensions.polarized.space_like as ad_ps
    import ekore.anomalous_dimensions.unpolarized.space_like as ad_us
    import ekore.anomalous_dimensions.unpolarized.time_like as ad_ut
    import ekore.operator_matrix_elements.polarized.space_like as ome_ps
    import ekore.operator_matrix_elements.unpolarized.space_like as ome_us
    import ekore.operator_matrix_elements.unpolarized.time_like as ome_ut

    return dict(ad_us=ad_us, ad_ut=ad_ut, ad_ps=ad_ps, ome_us=ome_us, ome_ut=ome_ut, ome_ps=ome_ps)


def call(case, n, L):
    """Dispatch one case at Mellin moment n (and log L for matching elements)."""
    m = _mods()
    e = case["entry"]
    o = tuple(case["order"])
    nf = case.get("nf")
    var = tuple(case.get("var", (0,) * 7))
    fh = case.get("fhmruvv", True)
    mode = case.get("mode")
    if e == "ad_us.gamma_ns":
        return m["ad_us"].gamma_ns(o, mode, n, nf, var, fh)
    if e == "ad_us.gamma_singlet":
        return m["ad_us"].gamma_singlet(o, n, nf, var, fh)
    if e == "ad_us.gamma_ns_qed":
        return m["ad_us"].gamma_ns_qed(o, mode, n, nf, var, fh)
    if e == "ad_us.gamma_singlet_qed":
        return m["ad_us"].gamma_singlet_qed(o, n, nf, var, fh)
    if e == "ad_us.gamma_valence_qed":
        return m["ad_us"].gamma_valence_qed(o, n, nf, var, fh)
    if e == "ad_ut.gamma_ns":
        return m["ad_ut"].gamma_ns(o, mode, n, nf)
    if e == "ad_ut.gamma_singlet":
        return m["ad_ut"].gamma_singlet(o, n, nf)
    if e == "ad_ps.gamma_ns":
        return m["ad_ps"].gamma_ns(o, mode, n, nf)
    if e == "ad_ps.gamma_singlet":
        return m["ad_ps"].gamma_singlet(o, n, nf)
    if e == "ome_us.A_singlet":
        return m["ome_us"].A_singlet(o, n, nf, L, case["msbar"])
    if e == "ome_us.A_non_singlet":
        return m["ome_us"].A_non_singlet(o, n, nf, L)
    if e == "ome_ut.A_singlet":
        return m["ome_ut"].A_singlet(o, n, L)
    if e == "ome_ut.A_non_singlet":
        return m["ome_ut"].A_non_singlet(o, n, L)
    if e == "ome_ps.A_singlet":
        return m["ome_ps"].A_singlet(o, n, nf, L)
    if e == "ome_ps.A_non_singlet":
        return m["ome_ps"].A_non_singlet(o, n, L)
    raise KeyError(e)


def _variant(case):
    v = []
    if "mode" in case:
        v.append(f"mode={case['mode']}")
    if case["order"][0] >= 4 and case["entry"].startswith("ad_us"):
        v.append("fhmruvv" if case.get("fhmruvv", True) else "eko-n3lo")
        v.append(f"var={case.get('var', [0])[0]}")
    if "msbar" in case:
        v.append(f"msbar={case['msbar']}")
    return "/".join(v)


def evaluate(case):
    res = Result()
    pts, real = n_lattice(case["thorough"])
    Ls = L_LATTICE if case["entry"].startswith("ome") else [None]
    base = f"{case['entry']}" + (f"/{_variant(case)}" if _variant(case) else "")
    mx_c = mx_r = 0.0
    nev = 0
    refused = 0
    comps = set()
    for L in Ls:
        for n in pts + [complex(x, 0.0) for x in real]:
            try:
                with np.errstate(all="ignore"):
                    a = np.asarray(call(case, n, L), dtype=np.complex128)
                    b = np.asarray(call(case, n.conjugate(), L), dtype=np.complex128)
            except NotImplementedError:
                refused += 1
                continue
            except Exception as e:  # noqa
                res.fail(
                    f"{base}/raises/{type(e).__name__}",
                    f"order={case['order']} nf={case.get('nf')} N={n} L={L}: {type(e).__name__}: {e}",
                )
                continue
            nev += 1
            bad = ~(np.isfinite(a) & np.isfinite(b))
            if bad.any():
                # one signature per component, independent of variant flags (one defect = one signature)
                for ix in zip(*np.nonzero(bad)):
                    res.fail(
                        f"{case['entry']}/component={list(map(int, ix))}/non-finite",
                        f"order={case['order']} nf={case.get('nf')} N={n} L={L} {_variant(case)}: "
                        f"f(N)={a[ix]!r} f(conj N)={b[ix]!r}",
                    )
                a = np.where(bad, 0.0, a)
                b = np.where(bad, 0.0, b)
            scale = float(np.max(np.abs(a))) if a.size else 0.0
            den = np.maximum(np.abs(a), 1e-8 * scale + 1e-300)
            dev = np.abs(b - np.conj(a)) / den
            if n.imag != 0:
                mx_c = max(mx_c, float(dev.max()))
                kind = "conjugation"
            else:
                dev = np.maximum(dev, np.abs(a.imag) / den)
                mx_r = max(mx_r, float(dev.max()))
                kind = "real-at-real-N"
            for ix in zip(*np.nonzero(~(dev <= TOL))):
                res.fail(
                    f"{base}/component={list(map(int, ix))}/{kind}",
                    f"order={case['order']} nf={case.get('nf')} N={n} L={L}: f(N)={a[ix]!r} f(conj N)={b[ix]!r} "
                    f"rel.dev={dev[ix]:.3e}",
                )
            comps.update(map(tuple, np.argwhere(np.abs(a) > 0).tolist()))
    res.info = {
        "max_conjugation_reldev": mx_c,
        "max_real_axis_reldev": mx_r,
        "evaluations": nev,
        "refused": refused,
        "nonzero_components": len(comps),
    }
    res.nontrivial = nev > 0 and len(comps) > 0
    res.outcome = "refused" if nev == 0 else f"{case['entry']}/ncomp={len(comps)}"
    return res


# --------------------------------------------------------------------------- enumeration
def all_cases(thorough):
    cases = []
    NF = [3, 4, 5, 6]
    NS = [10101, 10201, 10200]
    NSQ = [10102, 10103, 10202, 10203]

    def add(**kw):
        kw["thorough"] = thorough
        cases.append(kw)

    # N3LO variations: FHMRUVV has 0,1,2 per entry; eko's own N3LO up to 19 (gg); one index for all entries
    var_f = [0, 1, 2]
    var_e = list(range(0, 21)) if thorough else [0, 1, 2, 7, 19]
    for nf in NF:
        for k in (1, 2, 3, 4):
            n3 = [(True, v) for v in var_f] + [(False, v) for v in var_e] if k == 4 else [(True, 0)]
            for fh, v in n3:
                var = [v] * 7
                for mode in NS:
                    add(entry="ad_us.gamma_ns", order=[k, 0], mode=mode, nf=nf, var=var, fhmruvv=fh)
                add(entry="ad_us.gamma_singlet", order=[k, 0], nf=nf, var=var, fhmruvv=fh)
                for q in (1, 2):
                    if k == 4 and v not in (0, 1, 2, 19):
                        continue  # QED grids reuse the same N3LO functions
                    for mode in NSQ:
                        add(entry="ad_us.gamma_ns_qed", order=[k, q], mode=mode, nf=nf, var=var, fhmruvv=fh)
                    add(entry="ad_us.gamma_singlet_qed", order=[k, q], nf=nf, var=var, fhmruvv=fh)
                    add(entry="ad_us.gamma_valence_qed", order=[k, q], nf=nf, var=var, fhmruvv=fh)
            if k <= 3:
                for mode in NS:
                    add(entry="ad_ut.gamma_ns", order=[k, 0], mode=mode, nf=nf)
                    add(entry="ad_ps.gamma_ns", order=[k, 0], mode=mode, nf=nf)
                add(entry="ad_ut.gamma_singlet", order=[k, 0], nf=nf)
                add(entry="ad_ps.gamma_singlet", order=[k, 0], nf=nf)
        for k in (1, 2, 3):
            for msbar in (False, True):
                add(entry="ome_us.A_singlet", order=[k, 0], nf=nf, msbar=msbar)
            add(entry="ome_us.A_non_singlet", order=[k, 0], nf=nf)
        for k in (1, 2):
            add(entry="ome_ps.A_singlet", order=[k, 0], nf=nf)
    for k in (1, 2, 3):
        add(entry="ome_ut.A_singlet", order=[k, 0])
        add(entry="ome_ut.A_non_singlet", order=[k, 0])
    for k in (1, 2):
        add(entry="ome_ps.A_non_singlet", order=[k, 0])
    return cases


def run(ctx):
    th = ctx.thorough()
    cases = all_cases(th)
    results = ctx.run_cases(cases, evaluate)
    pts, real = n_lattice(th)
    nev = sum((r[1][3] or {}).get("evaluations", 0) for r in results)
    ctx.extra["function_evaluation_pairs"] = int(nev)
    ctx.extra["entries"] = len({c["entry"] for c in cases})
    ctx.rule = (
        f"complete product of the 15 public entry points (unpolarised space-like QCD ns/singlet and QED "
        f"ns/singlet/valence, time-like, polarised; matching elements unpolarised incl. MSbar flag, time-like, "
        f"polarised) x order 1..4 (QED (1..4,1..2); time-like/polarised 1..3; OME 1..3, 1..2 polarised) x nf 3..6 "
        f"x N3LO variants (FHMRUVV var 0..2, eko's own var {'0..20' if th else '0,1,2,7,19'}) x sector modes; each "
        f"case evaluates {len(pts)} complex N (both Talbot contours at u in "
        f"{'0.51..0.95' if th else '0.55,0.75,0.95'}, generic, near-real, far) with their conjugates and "
        f"{len(real)} real N, x L in {L_LATTICE} for matching elements; non-trivial = evaluated (not refused with "
        f"NotImplementedError, e.g. nf=6 at N3LO) and at least one non-zero component"
    )
    ctx.assumptions += [
        "relative deviation is measured per component against max(|component|, 1e-8 * largest component)",
        "real N are passed as complex(x, +0.0) as the Mellin inversion does; poles (N=1,0,-1,..) are not on the lattice",
        "NotImplementedError is an accepted refusal (counted, not a violation)",
        "lattice decides the property on the lattice only",
    ]
