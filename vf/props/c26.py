"""C26 real-analyticity of anomalous dimensions and operator matrix elements.

f(conj N) = conj f(N) on a lattice of complex-conjugate pairs (on and off the two Talbot contours),
Im f = 0 at real N away from poles, for every public entry point of ekore.anomalous_dimensions and
ekore.operator_matrix_elements x order x nf x variant x (L for matching elements).
The oracle is the statement itself (no reference values needed).
"""

from __future__ import annotations

import math

import numpy as np

from vf.core.ctx import Result

ID = "C26"
LEVEL = "exploration"
TECHNIQUE = "complete product of entry points x orders x nf x variants over a conjugate-pair lattice of N"
LEVEL_TEXT = (
    "Every entry point of ekore's anomalous dimensions and matching elements is evaluated at each "
    "lattice point N and at conj N (and at real N); all components of the returned towers must be "
    "complex conjugates (real) to 1e-13 relative (measured: exactly 0)."
)
LEVEL_NOTE = (
    "Decided on the lattice only (Talbot-type contours r=1/2,o=0 and r=6.4/(1-ln x),o=1 incl. the end point u=0.95; eko's own "
    "inversion contour r=6.4/(0.1-ln x), o=0|1 for x=1e-7..0.9; generic, near-real, next-to-N=1 points; real points 0.5..41.5 "
    "and N=1 where the entry has no pole there); interpreted mode (NUMBA_DISABLE_JIT=1). A non-finite value carries the "
    "location class of N in its signature (N=<integer> | real-non-integer-N | complex-N), so the recorded NaN of A_gq^(3) at "
    "N=2 does not excuse a non-finite value anywhere else; an aggregate stays silent about a non-finite component only if "
    "that component becomes finite once the non-finite leaf functions are made finite."
)
FLOOR_NONTRIVIAL = 50

TOL = 1e-13  # measured maximum (both tiers) is exactly 0.0: IEEE complex arithmetic commutes with conjugation
L_LATTICE = [-3.0, 0.0, 1.7, 3.0]


def talbot(t, r, o):
    """Talbot path written from its definition o + r (theta cot theta + i theta), theta = pi(2t-1)."""
    th = math.pi * (2 * t - 1)
    re = 1.0 if th == 0 else th / math.tan(th)
    return complex(o + r * re, r * th)


def eko_path(t, x, offset):
    """The contour eko integrates on (eko.mellin.Path, written from its definition): r = 0.4*16/(0.1 - ln x), o = 0 | 1."""
    return talbot(t, 0.4 * 16.0 / (0.1 - math.log(x)), 1.0 if offset else 0.0)


# the dedicated N~1 branches are keyed on |Im N| < 1e-5 and |Re N - 1| < 1e-5: one conjugate pair inside, one outside
NEAR_ONE = [complex(1.0, 5e-6), complex(1.0, 2e-5), complex(1.0 + 4e-6, 3e-6)]


def n_lattice(thorough):
    pts = []
    ts = [0.55, 0.75, 0.95] if not thorough else [0.51, 0.55, 0.65, 0.75, 0.85, 0.95]
    # Talbot-type contours: r=1/2, o=0 and o=1, r = 0.4*16/(1-ln x)
    for t in ts:
        pts.append(talbot(t, 0.5, 0.0))
        for x in [1e-7, 1e-2, 0.5] if thorough else [1e-7, 0.5]:
            pts.append(talbot(t, 0.4 * 16 / (1 - math.log(x)), 1.0))
    # generic points off the contours, near the real axis, far out
    pts += [1.5 + 0.5j, 2 + 10j, 7.3 + 3.1j, 30 + 40j, 0.7 + 0.2j, 2.0 + 1e-9j, 50 + 60j, 3.0 + 1e-3j]
    if thorough:
        pts += [1.2 + 0.05j, 4.0 + 0.5j, 15.5 + 20j, 14.0 + 1j, -0.5 + 2.5j, 1.0 + 3j, 100.0 + 5j]
    # eko's own inversion contour (non-singlet o=0, singlet o=1) from small x to x=0.9 (|N| up to ~300, Re N << 0)
    if thorough:
        pts += [eko_path(t, x, o) for t in (0.55, 0.75, 0.95) for x in (1e-7, 1e-2, 0.9) for o in (0, 1)]
    else:
        pts += [eko_path(0.6, 1e-7, 0), eko_path(0.6, 0.9, 1), eko_path(0.9, 1e-7, 1), eko_path(0.9, 0.9, 0)]
    # next to N=1 (inside and outside the window of the dedicated N~1 branches; off the pole for singlet-like entries)
    pts += NEAR_ONE
    real = [0.5, 1.5, 2.0, 3.0, 3.7, 10.0, 41.5]
    if thorough:
        real += [1.25, 4.0, 5.0, 7.0, 16.0, 100.0]
    return pts, real


POLARIZED = (".polarized.",)
# eko's own N3LO valence part: "the exact expression (nf^2 part) has an nonphysical pole at N=1" (tests/.../test_as4.py)
DOCUMENTED_POLE_AT_ONE = {
    ("ekore.anomalous_dimensions.unpolarized.space_like.as4.gnsv", "gamma_nsv"),
    ("ekore.anomalous_dimensions.unpolarized.space_like.as4.gnsv", "gamma_nss_nf2"),
    ("ekore.anomalous_dimensions.unpolarized.space_like.as4", "gamma_valence_qed"),
}
NO_POLE_AT_ONE_TOWERS = {
    "ad_us.gamma_ns", "ad_us.gamma_ns_qed", "ad_us.gamma_valence_qed", "ad_ut.gamma_ns", "ad_ps.gamma_ns", "ad_ps.gamma_singlet",
    "ome_us.A_non_singlet", "ome_ut.A_non_singlet", "ome_ps.A_non_singlet", "ome_ps.A_singlet",
}  # fmt: skip


def regular_at_one(case):
    """N = 1 is 'away from poles' for: every non-singlet / valence entry and every polarised entry. The unpolarised
    singlet-like entries have their physical pole there; eko's own N3LO valence part a documented non-physical one."""
    if case["entry"] == "fn":
        if (case["module"], case["name"]) in DOCUMENTED_POLE_AT_ONE:
            return False
        if any(p in case["module"] for p in POLARIZED):
            return True
        nm = case["name"].lower()
        return "ns" in nm or "valence" in nm
    if case["entry"] not in NO_POLE_AT_ONE_TOWERS:
        return False
    if case["entry"].startswith("ad_us") and case["order"][0] >= 4 and not case.get("fhmruvv", True):
        return not (case.get("mode") == 10200 or case["entry"] == "ad_us.gamma_valence_qed")
    return True


# --------------------------------------------------------------------------- entry points
def _mods():
    import ekore.anomalous_dimensions.polarized.space_like as ad_ps
    import ekore.anomalous_dimensions.unpolarized.space_like as ad_us
    import ekore.anomalous_dimensions.unpolarized.time_like as ad_ut
    import ekore.operator_matrix_elements.polarized.space_like as ome_ps
    import ekore.operator_matrix_elements.unpolarized.space_like as ome_us
    import ekore.operator_matrix_elements.unpolarized.time_like as ome_ut

    return dict(ad_us=ad_us, ad_ut=ad_ut, ad_ps=ad_ps, ome_us=ome_us, ome_ut=ome_ut, ome_ps=ome_ps)


def call(case, n, L):
    """Dispatch one case at Mellin moment n (and log L for matching elements)."""
    e = case["entry"]
    if e == "fn":
        return call_fn(case, n, L)
    m = _mods()
    o = tuple(case["order"])
    nf = case.get("nf")
    var = tuple(case.get("var", (0,) * 7))
    fh = case.get("fhmruvv", True)
    mode = case.get("mode")
    if e == "ad_us.gamma_ns":
        return m["ad_us"].gamma_ns(o, mode, n, nf, var, fh)
    if e == "ad_us.gamma_singlet":
        return m["ad_us"].gamma_singlet(o, n, nf, var, fh)
    if e == "ad_us.gamma_ns_qed":
        return m["ad_us"].gamma_ns_qed(o, mode, n, nf, var, fh)
    if e == "ad_us.gamma_singlet_qed":
        return m["ad_us"].gamma_singlet_qed(o, n, nf, var, fh)
    if e == "ad_us.gamma_valence_qed":
        return m["ad_us"].gamma_valence_qed(o, n, nf, var, fh)
    if e == "ad_ut.gamma_ns":
        return m["ad_ut"].gamma_ns(o, mode, n, nf)
    if e == "ad_ut.gamma_singlet":
        return m["ad_ut"].gamma_singlet(o, n, nf)
    if e == "ad_ps.gamma_ns":
        return m["ad_ps"].gamma_ns(o, mode, n, nf)
    if e == "ad_ps.gamma_singlet":
        return m["ad_ps"].gamma_singlet(o, n, nf)
    if e == "ome_us.A_singlet":
        return m["ome_us"].A_singlet(o, n, nf, L, case["msbar"])
    if e == "ome_us.A_non_singlet":
        return m["ome_us"].A_non_singlet(o, n, nf, L)
    if e == "ome_ut.A_singlet":
        return m["ome_ut"].A_singlet(o, n, L)
    if e == "ome_ut.A_non_singlet":
        return m["ome_ut"].A_non_singlet(o, n, L)
    if e == "ome_ps.A_singlet":
        return m["ome_ps"].A_singlet(o, n, nf, L)
    if e == "ome_ps.A_non_singlet":
        return m["ome_ps"].A_non_singlet(o, n, L)
    raise KeyError(e)


KNOWN_PARAMS = {"n", "N", "_N", "nf", "cache", "L", "_L", "variation", "is_msbar", "eta", "mode"}
TOWER_PARAMS = {"order", "matching_order"}  # the public towers are enumerated explicitly above
TUPLE_VARIATION = {"gamma_singlet", "gamma_singlet_qed", "gamma_valence_qed"}  # take the variation tuple


def discover():
    """Every function defined in ekore.anomalous_dimensions / ekore.operator_matrix_elements (any depth)."""
    import importlib
    import inspect
    import pkgutil

    import ekore.anomalous_dimensions as ad
    import ekore.operator_matrix_elements as ome

    out = []
    for pkg in (ad, ome):
        names = [pkg.__name__] + [m.name for m in pkgutil.walk_packages(pkg.__path__, pkg.__name__ + ".")]
        for mn in names:
            mod = importlib.import_module(mn)
            for name, fn in sorted(vars(mod).items()):
                if not inspect.isfunction(fn) or fn.__module__ != mod.__name__:
                    continue
                if not (name.startswith("gamma_") or name.lower().startswith("a_") or name.startswith("choose_")):
                    continue
                out.append((mn, name, tuple(inspect.signature(fn).parameters)))
    return out


def call_fn(case, n, L):
    import importlib

    from ekore.harmonics import cache as c

    fn = getattr(importlib.import_module(case["module"]), case["name"])
    args = []
    for p in case["params"]:
        if p in ("n", "N", "_N"):
            args.append(n)
        elif p == "nf":
            args.append(case["nf"])
        elif p == "cache":
            args.append(c.reset())
        elif p in ("L", "_L"):
            args.append(L)
        elif p == "variation":
            v = case["var"]
            args.append((v,) * 7 if case["name"] in TUPLE_VARIATION else v)
        elif p == "is_msbar":
            args.append(case["msbar"])
        elif p == "eta":
            args.append(case["eta"])
        elif p == "mode":
            args.append(case["mode"])
        else:  # pragma: no cover
            raise KeyError(p)
    return fn(*args)


_DISC = None


def _discovered():
    global _DISC
    if _DISC is None:
        _DISC = discover()
    return _DISC


def _is_leaf(mod, name):
    """A function that references no other discovered function by name."""
    import importlib

    fn = getattr(importlib.import_module(mod), name)
    names = {nm for _m, nm, _p in _discovered()} - {name}
    return not (set(fn.__code__.co_names) & names)


FAMILY_OF_ENTRY = {
    "ad_us": "ekore.anomalous_dimensions.unpolarized.space_like",
    "ad_ut": "ekore.anomalous_dimensions.unpolarized.time_like",
    "ad_ps": "ekore.anomalous_dimensions.polarized.space_like",
    "ome_us": "ekore.operator_matrix_elements.unpolarized.space_like",
    "ome_ut": "ekore.operator_matrix_elements.unpolarized.time_like",
    "ome_ps": "ekore.operator_matrix_elements.polarized.space_like",
}


def blame_leaves(case, n, L):
    """A non-finite value of an aggregate is attributed to the leaf functions of the same family that are themselves
    non-finite at the same (N, L, nf) - so that one defect has one signature (the leaf's own case reports it).
    Returns [(module, name)] (empty for a leaf)."""
    import itertools

    if case["entry"] == "fn":
        if _is_leaf(case["module"], case["name"]):
            return []
        fam = ".".join(case["module"].split(".")[:4])
    else:
        fam = FAMILY_OF_ENTRY[case["entry"].split(".")[0]]
    nfs = [case["nf"]] if case.get("nf") is not None else [3, 4, 5, 6]
    out = []
    for mod, name, params in _discovered():
        if not mod.startswith(fam) or set(params) & TOWER_PARAMS or not _is_leaf(mod, name):
            continue
        dims = {
            "nf": nfs if "nf" in params else [None],
            "var": [case.get("var", 0) if not isinstance(case.get("var"), list) else case["var"][0]]
            if "variation" in params
            else [None],
            "msbar": [False, True] if "is_msbar" in params else [None],
            "eta": [1, -1] if "eta" in params else [None],
            "mode": [10102, 10103, 10202, 10203] if "mode" in params else [None],
        }
        for combo in itertools.product(*dims.values()):
            sub = {"entry": "fn", "module": mod, "name": name, "params": list(params)}
            sub.update({k: v for k, v in zip(dims, combo) if v is not None})
            try:
                with np.errstate(all="ignore"):
                    v = np.asarray(call_fn(sub, n, L if L is not None else 0.0), dtype=np.complex128)
            except Exception:  # noqa
                continue
            if not np.all(np.isfinite(v)):
                out.append((mod, name))
                break
    return out


def not_inherited(case, n, L, leaves):
    """Components of the aggregate that stay non-finite when every blamed leaf is made finite (its non-finite values
    replaced by 0, in every ekore namespace the function is bound in; interpreted mode): those are NOT explained by the
    leaves' own defects and are reported under the aggregate's signature. Returns a boolean mask for (f(N), f(conj N))."""
    import importlib
    import sys

    def finite(fn):
        def wrapped(*a, **kw):
            with np.errstate(all="ignore"):
                v = fn(*a, **kw)
            if isinstance(v, np.ndarray):
                return np.where(np.isfinite(v), v, 0.0)
            return v if np.isfinite(v) else 0.0 * 1j

        return wrapped

    patched = []
    try:
        for mod, name in leaves:
            orig = getattr(importlib.import_module(mod), name)
            repl = finite(orig)
            for mname, m in list(sys.modules.items()):
                if m is None or not mname.startswith("ekore"):
                    continue
                for attr, val in list(vars(m).items()):
                    if val is orig:
                        patched.append((m, attr, orig))
                        setattr(m, attr, repl)
        with np.errstate(all="ignore"):
            a = np.atleast_1d(np.asarray(call(case, n, L), dtype=np.complex128))
            b = np.atleast_1d(np.asarray(call(case, n.conjugate(), L), dtype=np.complex128))
    finally:
        for m, attr, orig in patched:
            setattr(m, attr, orig)
    return ~(np.isfinite(a) & np.isfinite(b))


def location(n):
    """Discrete class of the Mellin moment (for signatures of non-finite values: where is the spurious pole)."""
    if n.imag == 0:
        return f"N={int(n.real)}" if n.real == int(n.real) else "real-non-integer-N"
    return "complex-N"


def _variant(case):
    if case["entry"] == "fn":
        v = []
        if "var" in case:
            v.append(f"var={case['var']}")
        if "msbar" in case:
            v.append(f"msbar={case['msbar']}")
        if "eta" in case:
            v.append(f"eta={case['eta']}")
        if "mode" in case:
            v.append(f"mode={case['mode']}")
        return "/".join(v)
    v = []
    if "mode" in case:
        v.append(f"mode={case['mode']}")
    if case["order"][0] >= 4 and case["entry"].startswith("ad_us"):
        v.append("fhmruvv" if case.get("fhmruvv", True) else "eko-n3lo")
        v.append(f"var={case.get('var', [0])[0]}")
    if "msbar" in case:
        v.append(f"msbar={case['msbar']}")
    return "/".join(v)


def evaluate(case):
    res = Result()
    pts, real = n_lattice(case["thorough"])
    is_fn = case["entry"] == "fn"
    ename = f"{case['module'].replace('ekore.', '')}.{case['name']}" if is_fn else case["entry"]
    has_L = any(p in ("L", "_L") for p in case["params"]) if is_fn else case["entry"].startswith("ome")
    has_N = any(p in ("n", "N", "_N") for p in case["params"]) if is_fn else True
    Ls = L_LATTICE if has_L else [None]
    base = ename + (f"/{_variant(case)}" if _variant(case) else "")
    if not has_N:
        pts, real = [], [1.0]  # constant in N: must simply be real
    mx_c = mx_r = 0.0
    nev = 0
    refused = 0
    comps = set()
    nonfinite_inherited = set()
    n_nonfinite = 0
    if has_N and regular_at_one(case):
        real = [1.0] + real  # no pole at N=1: the dedicated N~1 branches are asked for a real value
    for L in Ls:
        for n in pts + [complex(x, 0.0) for x in real]:
            try:
                with np.errstate(all="ignore"):
                    a = np.atleast_1d(np.asarray(call(case, n, L), dtype=np.complex128))
                    b = np.atleast_1d(np.asarray(call(case, n.conjugate(), L), dtype=np.complex128))
            except NotImplementedError:
                refused += 1
                continue
            except Exception as e:  # noqa
                res.fail(
                    f"{base}/raises/{type(e).__name__}",
                    f"order={case.get('order')} nf={case.get('nf')} N={n} L={L}: {type(e).__name__}: {e}",
                )
                continue
            nev += 1
            bad = ~(np.isfinite(a) & np.isfinite(b))
            if bad.any():
                n_nonfinite += 1
                leaves = blame_leaves(case, n, L)
                nonfinite_inherited.update(f"{m_}.{f_}" for m_, f_ in leaves)
                # one signature per component and pole location, independent of variant flags (one defect = one
                # signature); an aggregate whose leaves are non-finite at the same point leaves the report to the
                # leaves' own cases - but only for the components that become finite once those leaves are finite
                own = not_inherited(case, n, L, leaves) if leaves else bad
                for ix in zip(*np.nonzero(bad & own)):
                    res.fail(
                        f"{ename}/component={list(map(int, ix))}/non-finite/at={location(n)}",
                        f"order={case.get('order')} nf={case.get('nf')} N={n} L={L} {_variant(case)}: "
                        f"f(N)={a[ix]!r} f(conj N)={b[ix]!r}"
                        + (f" (still non-finite when the non-finite leaves {sorted(nonfinite_inherited)} are made finite)" if leaves else ""),
                    )
                a = np.where(bad, 0.0, a)
                b = np.where(bad, 0.0, b)
            scale = float(np.max(np.abs(a))) if a.size else 0.0
            den = np.maximum(np.abs(a), 1e-8 * scale + 1e-300)
            dev = np.abs(b - np.conj(a)) / den
            if n.imag != 0:
                mx_c = max(mx_c, float(dev.max()))
                kind = "conjugation"
            else:
                dev = np.maximum(dev, np.abs(a.imag) / den)
                mx_r = max(mx_r, float(dev.max()))
                kind = "real-at-real-N"
            for ix in zip(*np.nonzero(~(dev <= TOL))):
                res.fail(
                    f"{base}/component={list(map(int, ix))}/not-real-analytic",
                    f"[{kind}] order={case.get('order')} nf={case.get('nf')} N={n} L={L}: f(N)={a[ix]!r} f(conj N)={b[ix]!r} "
                    f"rel.dev={dev[ix]:.3e}",
                )
            comps.update(map(tuple, np.argwhere(np.abs(a) > 0).tolist()))
    res.info = {
        "max_conjugation_reldev": mx_c,
        "max_real_axis_reldev": mx_r,
        "evaluations": nev,
        "refused": refused,
        "nonzero_components": len(comps),
        "nonfinite_points": n_nonfinite,
        "real_N_equal_1": bool(has_N and regular_at_one(case)),
        "nonfinite_inherited_from": sorted(nonfinite_inherited),
    }
    res.nontrivial = nev > 0 and len(comps) > 0
    res.outcome = "refused" if nev == 0 else f"{ename}/ncomp={len(comps)}"
    return res


# --------------------------------------------------------------------------- enumeration
def all_cases(thorough):
    cases = []
    NF = [3, 4, 5, 6]
    NS = [10101, 10201, 10200]
    NSQ = [10102, 10103, 10202, 10203]

    def add(**kw):
        kw["thorough"] = thorough
        cases.append(kw)

    # N3LO variations: FHMRUVV has 0,1,2 per entry; eko's own N3LO up to 19 (gg); one index for all entries
    var_f = [0, 1, 2]
    var_e = list(range(0, 21)) if thorough else [0, 1, 2, 7, 19]
    for nf in NF:
        for k in (1, 2, 3, 4):
            n3 = [(True, v) for v in var_f] + [(False, v) for v in var_e] if k == 4 else [(True, 0)]
            for fh, v in n3:
                var = [v] * 7
                for mode in NS:
                    add(entry="ad_us.gamma_ns", order=[k, 0], mode=mode, nf=nf, var=var, fhmruvv=fh)
                add(entry="ad_us.gamma_singlet", order=[k, 0], nf=nf, var=var, fhmruvv=fh)
                for q in (1, 2):
                    if k == 4 and v not in (0, 1, 2, 19):
                        continue  # QED grids reuse the same N3LO functions
                    for mode in NSQ:
                        add(entry="ad_us.gamma_ns_qed", order=[k, q], mode=mode, nf=nf, var=var, fhmruvv=fh)
                    add(entry="ad_us.gamma_singlet_qed", order=[k, q], nf=nf, var=var, fhmruvv=fh)
                    add(entry="ad_us.gamma_valence_qed", order=[k, q], nf=nf, var=var, fhmruvv=fh)
            if k <= 3:
                for mode in NS:
                    add(entry="ad_ut.gamma_ns", order=[k, 0], mode=mode, nf=nf)
                    add(entry="ad_ps.gamma_ns", order=[k, 0], mode=mode, nf=nf)
                add(entry="ad_ut.gamma_singlet", order=[k, 0], nf=nf)
                add(entry="ad_ps.gamma_singlet", order=[k, 0], nf=nf)
        for k in (1, 2, 3):
            for msbar in (False, True):
                add(entry="ome_us.A_singlet", order=[k, 0], nf=nf, msbar=msbar)
            add(entry="ome_us.A_non_singlet", order=[k, 0], nf=nf)
        for k in (1, 2):
            add(entry="ome_ps.A_singlet", order=[k, 0], nf=nf)
    for k in (1, 2, 3):
        add(entry="ome_ut.A_singlet", order=[k, 0])
        add(entry="ome_ut.A_non_singlet", order=[k, 0])
    for k in (1, 2):
        add(entry="ome_ps.A_non_singlet", order=[k, 0])
    # every individual function (fresh cache per call), found by introspection
    for mod, name, params in discover():
        if set(params) & TOWER_PARAMS:
            continue
        unknown = set(params) - KNOWN_PARAMS
        if unknown:
            from vf.core.ctx import HarnessError

            raise HarnessError(f"C26 does not know how to supply {unknown} of {mod}.{name}{params}")
        dims = [("nf", NF if "nf" in params else [None])]
        dims.append(("var", var_e if "variation" in params else [None]))
        dims.append(("msbar", [False, True] if "is_msbar" in params else [None]))
        dims.append(("eta", [1, -1] if "eta" in params else [None]))
        dims.append(("mode", NSQ if "mode" in params else [None]))
        import itertools

        for combo in itertools.product(*[d[1] for d in dims]):
            kw = {k: v for (k, _), v in zip(dims, combo) if v is not None}
            add(entry="fn", module=mod, name=name, params=list(params), **kw)
    return cases


def run(ctx):
    th = ctx.thorough()
    cases = all_cases(th)
    results = ctx.run_cases(cases, evaluate)
    pts, real = n_lattice(th)
    nev = sum((r[1][3] or {}).get("evaluations", 0) for r in results)
    ctx.extra["function_evaluation_pairs"] = int(nev)
    ctx.extra["entries"] = len({c["entry"] for c in cases if c["entry"] != "fn"})
    ctx.extra["individual_functions"] = len({(c["module"], c["name"]) for c in cases if c["entry"] == "fn"})
    ctx.extra["cases_with_real_N_1"] = int(sum(bool((r[1][3] or {}).get("real_N_equal_1")) for r in results))
    ctx.extra["evaluation_points_with_a_nonfinite_component"] = int(sum((r[1][3] or {}).get("nonfinite_points", 0) for r in results))
    ctx.rule = (
        f"complete product of the 15 public entry points (unpolarised space-like QCD ns/singlet and QED "
        f"ns/singlet/valence, time-like, polarised; matching elements unpolarised incl. MSbar flag, time-like, "
        f"polarised) x order 1..4 (QED (1..4,1..2); time-like/polarised 1..3; OME 1..3, 1..2 polarised) x nf 3..6 "
        f"x N3LO variants (FHMRUVV var 0..2, eko's own var {'0..20' if th else '0,1,2,7,19'}) x sector modes; each "
        f"case evaluates {len(pts)} complex N (two Talbot-type contours at u in "
        f"{'0.51..0.95' if th else '0.55,0.75,0.95'}; eko's own Path contour r=6.4/(0.1-ln x) with and without offset, "
        f"{'u in 0.55,0.75,0.95 x x in 1e-7,1e-2,0.9' if th else '4 points, x in 1e-7, 0.9'}; generic, near-real, far; "
        f"{len(NEAR_ONE)} points next to N=1 inside/outside the 1e-5 window of the dedicated branches) with their conjugates and "
        f"{len(real)} real N (+ N=1 for the {ctx.extra['cases_with_real_N_1']} cases whose entry has no pole there: non-singlet, "
        f"valence, polarised; not eko's own N3LO valence part), x L in {L_LATTICE} for matching elements; tolerance {TOL:g} relative; "
        f"non-trivial = evaluated (not refused with "
        f"NotImplementedError, e.g. nf=6 at N3LO) and at least one non-zero component. In addition every "
        f"individual function gamma_*/A_*/a_*/choose_* found by introspection in the two packages "
        f"({ctx.extra['individual_functions']} functions) is called with a fresh cache over the same lattice x nf x "
        f"variation x flags"
    )
    ctx.assumptions += [
        "relative deviation is measured per component against max(|component|, 1e-8 * largest component)",
        "real N are passed as complex(x, +0.0) as the Mellin inversion does; poles (N=0,-1,.., and N=1 for the unpolarised "
        "singlet-like entries and eko's own N3LO valence part, documented) are not on the lattice",
        "non-finite components are excluded from the measured maxima (set to 0 before the comparison) and reported under "
        ".../non-finite/at=<location class of N>",
        "NotImplementedError is an accepted refusal (counted, not a violation)",
        "lattice decides the property on the lattice only",
    ]
