"""C08 approximate solution methods agree with the exact (path-ordered) one to the working order.

For every (sector, order n, nf, gamma tower, base coupling pair) both couplings are scaled together by
lambda = 1, 1/2, ..., 1/512 and  D(lambda) = max|approximate kernel - exact solution|  is measured against
the 40-digit ODE reference (vf/ref/c07_ode.py; scalar for the non-singlet, path-ordered 2x2 for the
singlet).  The local exponents log2(D_i/D_{i+1}) in the asymptotic window must be >= n - 0.25.
"""

import hashlib
import json
import math
import os

import numpy as np

from vf.core.ctx import Result
from vf.ref import c07_ode as R

ID = "C08"
LEVEL = "exploration"
TECHNIQUE = "exhaustive lattice; scaling exponent of (approximate - exact) against a 40-digit path-ordered ODE reference"
LEVEL_TEXT = (
    "on every point of the finite lattice (order 2-4, nf 3-6, fixed complex towers, base coupling pairs, all "
    "approximate methods incl. every perturbative configuration listed) the difference to the exact solution "
    "scales at least like a^n in the asymptotic window reached by halving both couplings down to 1/512; "
    "nothing is claimed off the lattice"
)
LEVEL_NOTE = (
    "trusted: mpmath, my beta table, the Taylor ODE solver (cross-checked against quadrature in C07 and at "
    "import); residuals below 1e-13 are treated as zero; the decompose methods are only run on commuting towers"
)
FLOOR_NONTRIVIAL = 50

FLOOR = 1e-13  # residual treated as zero (double-precision noise of an O(1) kernel)
SLACK = 0.25
WINDOW = 0.1
LAMBDAS = [2.0**-i for i in range(10)]  # 1 .. 1/512
NFS = [3, 4, 5, 6]
LA = [0.002, 0.005, 0.0125, 0.03, 0.05]

NS_TOWERS = [
    [[0.8, 0.0], [7.5, 0.0], [61.0, 0.0], [880.0, 0.0]],
    [[-0.45, 0.0], [9.1, 0.0], [-83.0, 0.0], [410.0, 0.0]],
    [[0.6, 0.3], [-4.2, 6.1], [55.0, -38.0], [-320.0, 710.0]],
    [[-0.2, -0.9], [8.8, -1.7], [-12.0, 95.0], [640.0, 120.0]],
    [[0.0, 0.0], [3.3, -2.2], [-47.0, 21.0], [150.0, -930.0]],
    [[-1.0, 0.0], [0.0, 10.0], [-100.0, 0.0], [0.0, 1000.0]],
]


def _z(re, im=0.0):
    return [float(re), float(im)]


# non-commuting 2x2 towers (|entries| <= 10^k, LO eigenvalues distinct)
S_NONCOMM = [
    [
        [[_z(0.8), _z(0.35)], [_z(-0.5), _z(-0.45)]],
        [[_z(7.5), _z(-3.1)], [_z(4.4), _z(9.1)]],
        [[_z(61), _z(25)], [_z(-37), _z(-83)]],
        [[_z(880), _z(-300)], [_z(150), _z(410)]],
    ],
    [
        [[_z(0.6, 0.3), _z(-0.2, -0.9)], [_z(0.4, -0.1), _z(-0.7, 0.2)]],
        [[_z(-4.2, 6.1), _z(8.8, -1.7)], [_z(3.3, -2.2), _z(1.0, 5.0)]],
        [[_z(55, -38), _z(-12, 95)], [_z(-47, 21), _z(20, 20)]],
        [[_z(-320, 710), _z(640, 120)], [_z(150, -930), _z(-500, -100)]],
    ],
    [
        [[_z(0.9), _z(0.0)], [_z(0.3), _z(-0.6)]],
        [[_z(-2.0, 1.0), _z(6.0)], [_z(0.0), _z(5.5, -3.0)]],
        [[_z(10, 70), _z(-90)], [_z(33, 3), _z(0.0)]],
        [[_z(0.0), _z(999)], [_z(-700, 100), _z(250, 250)]],
    ],
]


def _commuting(alpha, beta, m):
    """gamma_k = alpha_k 1 + beta_k M : a commuting, in general non-diagonal tower."""
    out = []
    for al, be in zip(alpha, beta):
        al = complex(*al)
        be = complex(*be)
        mat = [[al * (1 if i == j else 0) + be * complex(*m[i][j]) for j in range(2)] for i in range(2)]
        out.append([[_z(x.real, x.imag) for x in row] for row in mat])
    return out


S_COMM = [
    # diagonal
    [
        [[_z(0.8), _z(0)], [_z(0), _z(-0.45)]],
        [[_z(7.5), _z(0)], [_z(0), _z(9.1)]],
        [[_z(61), _z(0)], [_z(0), _z(-83)]],
        [[_z(880), _z(0)], [_z(0), _z(410)]],
    ],
    # polynomials in one full matrix
    _commuting(
        [_z(0.25, 0.1), _z(-3.0, 2.0), _z(20, -15), _z(-100, 300)],
        [_z(0.75, -0.25), _z(5.0, 4.0), _z(-60, 30), _z(500, -125)],
        [[_z(0.5), _z(1.0)], [_z(-0.5), _z(-0.75)]],
    ),
]

NS_KERNEL = {
    "expanded": {2: "nlo_expanded", 3: "nnlo_expanded", 4: "n3lo_expanded"},
}
DEC = {2: "nlo", 3: "nnlo", 4: "n3lo"}


def _decide(ds, n):
    """ds: residuals at LAMBDAS.  Returns (verdict, exps) ; verdict in ok/zero/undecided/FAIL."""
    usable = [d is not None and d > FLOOR and math.isfinite(d) for d in ds]
    exps = []
    for i in range(len(ds) - 1):
        if usable[i] and usable[i + 1]:
            exps.append(math.log2(ds[i] / ds[i + 1]))
        else:
            break
    if any(d is None or not math.isfinite(d) for d in ds):
        return "FAIL-nonfinite", exps
    if not usable[0]:
        return "zero", exps
    if len(exps) < 2:
        return "below-noise", exps
    e1, e2 = exps[-2], exps[-1]
    if min(e1, e2) >= n - SLACK:
        return "ok", exps
    if abs(e1 - e2) <= WINDOW:
        return "FAIL", exps
    # not yet asymptotic at the smallest usable lambda: decided only if the trend is clear
    return "undecided", exps


def _ns_methods(EvoMethods):
    return [
        ("expanded", EvoMethods.ITERATE_EXPANDED, None),
        ("expanded", EvoMethods.DECOMPOSE_EXPANDED, None),
        ("expanded", EvoMethods.PERTURBATIVE_EXPANDED, None),
        ("eko_truncated", EvoMethods.TRUNCATED, None),
        ("eko_ordered_truncated", EvoMethods.ORDERED_TRUNCATED, None),
    ]


def _s_methods(EvoMethods, n, commuting):
    out = [
        ("eko_truncated", EvoMethods.TRUNCATED, (1, 10)),
        ("eko_truncated", EvoMethods.ORDERED_TRUNCATED, (1, 10)),
    ]
    for it, mo in ((1, n), (4, n), (1, n + 1), (1, 10)):
        out.append(("eko_perturbative/exact", EvoMethods.PERTURBATIVE_EXACT, (it, mo)))
        out.append(("eko_perturbative/expanded", EvoMethods.PERTURBATIVE_EXPANDED, (it, mo)))
    if commuting:
        out.append((f"{DEC[n]}_decompose_exact", EvoMethods.DECOMPOSE_EXACT, (1, 10)))
        out.append((f"{DEC[n]}_decompose_expanded", EvoMethods.DECOMPOSE_EXPANDED, (1, 10)))
    return out


def _reference(sector, ti, tower, n, nf, a0, a1):
    key = hashlib.sha1(json.dumps([sector, ti, tower, n, nf, a0, a1]).encode()).hexdigest()
    d = os.environ.get("VERIF_SCRATCH_DIR")
    path = os.path.join(d, "c08refs", key + ".json") if d else None
    if path and os.path.exists(path):
        try:
            v = json.loads(open(path).read())
            return np.array([complex(x[0], x[1]) for x in v["flat"]]).reshape(v["shape"])
        except Exception:  # noqa  (torn file: recompute)
            pass
    if sector == "ns":
        out = np.array(complex(R.ns_exact_ode(tower, n, nf, a0, a1)))
    else:
        e = R.singlet_exact_ode(tower, n, nf, a0, a1)
        out = np.array([[complex(x) for x in row] for row in e])
    if path:
        try:
            os.makedirs(os.path.dirname(path), exist_ok=True)
            tmp = f"{path}.{os.getpid()}.tmp"
            with open(tmp, "w") as fh:
                fh.write(json.dumps({"shape": list(out.shape), "flat": [[float(z.real), float(z.imag)] for z in out.reshape(-1)]}))
            os.replace(tmp, path)
        except OSError:
            pass
    return out


def evaluate(case):
    from eko.kernels import EvoMethods
    from eko.kernels import non_singlet as ns
    from eko.kernels import singlet as s

    res = Result()
    n = case["order"]
    nf = case["nf"]
    a0b, a1b = case["pair"]
    sector = case["sector"]
    if sector == "ns":
        tower = NS_TOWERS[case["tower"]]
        g = np.array([R.to_c(z) for z in tower[:n]], dtype=np.complex128)
        methods = _ns_methods(EvoMethods)
    else:
        commuting = case["sector"] == "s-comm"
        tower = (S_COMM if commuting else S_NONCOMM)[case["tower"]]
        g = np.array([[[R.to_c(z) for z in row] for row in m] for m in tower[:n]], dtype=np.complex128)
        methods = _s_methods(EvoMethods, n, commuting)
    # exact references at every lambda (memoised in the run's scratch directory: the harness re-runs every
    # failing case once in the parent process, and the 40-digit references are the expensive part)
    refs = []
    for lam in LAMBDAS:
        a0, a1 = a0b * lam, a1b * lam
        refs.append((a0, a1, _reference(sector, case["tower"], tower, n, nf, a0, a1)))
    verdicts = {}
    shortfall = -10.0
    worst = ""
    decided = 0
    for kern, meth, conf in methods:
        ds = []
        err = None
        for a0, a1, ref in refs:
            try:
                if sector == "ns":
                    e = np.array(complex(ns.dispatcher((n, 0), meth, g, a1, a0, nf)))
                else:
                    e = np.array(s.dispatcher((n, 0), meth, g, a1, a0, nf, conf[0], (conf[1], 0)))
                d = float(np.max(np.abs(e - ref)))
            except Exception as ex:  # noqa
                err = f"{type(ex).__name__}: {ex}"
                d = None
            ds.append(d)
        v, exps = _decide(ds, n)
        mod = "non_singlet" if sector == "ns" else "singlet"
        kname = NS_KERNEL["expanded"][n] if kern == "expanded" else kern
        sig = f"{mod}.{kname}/order={n}"
        where = (
            f"method={meth.name} conf(it,max_order)={conf} nf={nf} sector={sector} tower={case['tower']} base pair a0={a0b} a1={a1b}: "
            f"residuals at lambda=1..1/512 = {['%.3e' % d if d is not None else None for d in ds]}, local exponents = {['%.2f' % x for x in exps]}"
        )
        if v == "FAIL-nonfinite":
            res.fail(sig + "/nonfinite", (err or "nan/inf") + " " + where)
        elif v == "FAIL":
            res.fail(sig, f"difference to the exact solution scales like a^{exps[-1]:.2f} < a^{n}: " + where)
        if v in ("ok", "FAIL"):
            decided += 1
        if v == "ok" and n - min(exps[-2:]) > shortfall:
            shortfall = n - min(exps[-2:])
            worst = f"{sig} method={meth.name} conf={conf} nf={nf} sector={sector} tower={case['tower']} pair={case['pair']} exps={['%.2f' % x for x in exps]}"
        key = f"{kname}:{v}"
        verdicts[key] = verdicts.get(key, 0) + 1
    res.info = {"max_exponent_shortfall_of_passing": shortfall, "worst_passing": worst, "decided": decided, "verdicts": verdicts}
    classes = sorted({k.split(":")[1] for k in verdicts})
    res.outcome = f"{sector}:" + ",".join(classes)
    res.nontrivial = decided > 0
    return res


def _pairs(thorough, sector):
    allp = [[a0, a1] for a0 in LA for a1 in LA if a0 != a1]
    if thorough:
        return allp if sector == "ns" else [p for p in allp if max(p) >= 0.03]
    if sector == "ns":
        return [[0.0125, 0.05], [0.05, 0.0125], [0.002, 0.05], [0.05, 0.03]]
    return [[0.0125, 0.05], [0.05, 0.0125], [0.002, 0.05]]


def run(ctx):
    th = ctx.thorough()
    cases = []
    for n in (2, 3, 4):
        for nf in NFS:
            for t in range(len(NS_TOWERS)):
                for p in _pairs(th, "ns"):
                    cases.append({"sector": "ns", "order": n, "nf": nf, "tower": t, "pair": p})
            for t in range(len(S_NONCOMM) if th else 2):
                for p in _pairs(th, "s"):
                    cases.append({"sector": "s-noncomm", "order": n, "nf": nf, "tower": t, "pair": p})
            for t in range(len(S_COMM)):
                for p in _pairs(th, "s"):
                    cases.append({"sector": "s-comm", "order": n, "nf": nf, "tower": t, "pair": p})
    results = ctx.run_cases(cases, evaluate)
    tot = {}
    for _, out in results:
        for k, v in ((out[3] or {}).get("verdicts") or {}).items():
            tot[k] = tot.get(k, 0) + v
    wl = sorted(((out[3] or {}).get("max_exponent_shortfall_of_passing", -10), (out[3] or {}).get("worst_passing", "")) for _, out in results)
    ctx.extra.update(verdicts_per_kernel=tot, closest_passing=[f"{a:.3f} {b}" for a, b in wl[-3:]])
    ctx.rule = (
        "complete product order 2-4 x nf 3-6 x towers x base coupling pairs; NS: 6 complex towers, methods "
        "{iterate,decompose,perturbative}-expanded, truncated, ordered-truncated; singlet: non-commuting complex 2x2 towers "
        "with truncated, ordered-truncated, perturbative-exact/-expanded at (iterations, ev_op_max_order) in "
        "{(1,n),(4,n),(1,n+1),(1,10)}; commuting towers (one diagonal, one polynomial in a full matrix) additionally "
        "with decompose-exact/-expanded. Each case is scaled by lambda=2^0..2^-9 (10 exact references per case). "
        f"Base pairs: ordered pairs of {LA} (quick: 4 for NS - ratio 4 up/down, 25 up, 0.6 down - and the first 3 of them for the singlet; thorough: all 20 for NS, the 14 reaching 0.03 for the singlet). "
        "A (case, method) is decided when two local exponents exist above the 1e-13 noise floor; non-trivial = "
        "at least one method decided"
    )
    ctx.assumptions += [
        "exponent rule of DESIGN 2.3: last two local exponents >= n-0.25 pass; they fail when both agree to 0.1 "
        "(asymptotic window reached) and one is below n-0.25; residuals < 1e-13 count as zero",
        "perturbative methods are required to reach the working order only for ev_op_max_order >= n (the number of "
        "U-matrices kept is the user's setting)",
        "decompose methods only on commuting towers (statement); 'exact kernel' = 40-digit path-ordered ODE solution "
        "with gamma and beta truncated at order n",
        "interpreted mode (NUMBA_DISABLE_JIT=1)",
    ]
