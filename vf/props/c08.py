"""C08 approximate solution methods agree with the exact (path-ordered) one to the working order.

For every (sector, order n, nf, gamma tower, base coupling pair) both couplings are scaled together by
lambda = 1, 1/2, ..., 1/512 and  D(lambda) = max|approximate kernel - exact solution|  is measured against
the 40-digit ODE reference (vf/ref/c07_ode.py; scalar for the non-singlet, path-ordered 2x2 for the
singlet).  The local exponents log2(D_i/D_{i+1}) in the asymptotic window must be >= n - 0.25.

Two sharper, property-local oracles sit on top of the exponent rule (which alone resolves the coefficient of the
a^(n-1) term only to ~1 % at N3LO):
* Richardson-eliminated signed difference: Delta(lambda) = kernel - exact is a power series in lambda, so
  T(lambda) = Delta(lambda) - 2^n Delta(lambda/2) contains no lambda^n term at all; what the statement allows is
  T = O(lambda^(n+1)), a wrong term below the working order leaves -C_(n-1) lambda^(n-1).  Judged on the local
  exponents of max|T| (>= n + 1 - 0.25 in the asymptotic window, see _decide_richardson).
* coefficient level ("no approximate method gets any term below the working order wrong"): the U-vectors the
  truncated / ordered-truncated / perturbative kernels are built from (non_singlet.U_vec, singlet.r_vec, singlet.u_vec)
  against the series coefficients R_k of gamma/beta and U_k computed at 40 digits from the definition
  (vf/ref/c08_coeff.py: Toeplitz solve + Sylvester system, no projectors), k < n, to 1e-13 relative.
"""

import hashlib
import json
import math
import os

import numpy as np

from vf.core.ctx import Result
from vf.ref import c07_ode as R
from vf.ref import c08_coeff as CO

ID = "C08"
LEVEL = "exploration"
TECHNIQUE = (
    "exhaustive lattice; scaling exponent of (approximate - exact) and of its Richardson-eliminated signed difference against a "
    "40-digit path-ordered ODE reference; U-vector coefficients against a 40-digit series/Sylvester reference"
)
LEVEL_TEXT = (
    "on every point of the finite lattice (order 2-4, nf 3-6, fixed complex towers, base coupling pairs, all "
    "approximate methods incl. every perturbative configuration listed) the difference to the exact solution "
    "scales at least like a^n in the asymptotic window reached by halving both couplings down to 1/512, the signed "
    "difference with its a^n term eliminated scales at least like a^(n+1), and every coefficient R_k, U_k (k < n) the "
    "truncated / perturbative kernels use equals the 40-digit value to 1e-13; nothing is claimed off the lattice"
)
LEVEL_NOTE = (
    "trusted: mpmath, my beta table, the Taylor ODE solver (cross-checked against quadrature in C07 and at "
    "import); residuals below 1e-13 are treated as zero; the decompose methods are only run on commuting towers"
)
FLOOR_NONTRIVIAL = 50

FLOOR = 1e-13  # residual treated as zero (double-precision noise of an O(1) kernel)
SLACK = 0.25
WINDOW = 0.1
FLOOR_T = 1e-12  # the same for T = Delta(lambda) - 2^n Delta(lambda/2): (1 + 2^n) x the noise of Delta
TOL_COEFF = 1e-13  # relative (max-norm per matrix) deviation of R_k / U_k, k < n; measured maximum 2.4e-15
LAMBDAS = [2.0**-i for i in range(10)]  # 1 .. 1/512
NFS = [3, 4, 5, 6]
LA = [0.002, 0.005, 0.0125, 0.03, 0.05]

NS_TOWERS = [
    [[0.8, 0.0], [7.5, 0.0], [61.0, 0.0], [880.0, 0.0]],
    [[-0.45, 0.0], [9.1, 0.0], [-83.0, 0.0], [410.0, 0.0]],
    [[0.6, 0.3], [-4.2, 6.1], [55.0, -38.0], [-320.0, 710.0]],
    [[-0.2, -0.9], [8.8, -1.7], [-12.0, 95.0], [640.0, 120.0]],
    [[0.0, 0.0], [3.3, -2.2], [-47.0, 21.0], [150.0, -930.0]],
    [[-1.0, 0.0], [0.0, 10.0], [-100.0, 0.0], [0.0, 1000.0]],
]


def _z(re, im=0.0):
    return [float(re), float(im)]


# non-commuting 2x2 towers (|entries| <= 10^k, LO eigenvalues distinct)
S_NONCOMM = [
    [
        [[_z(0.8), _z(0.35)], [_z(-0.5), _z(-0.45)]],
        [[_z(7.5), _z(-3.1)], [_z(4.4), _z(9.1)]],
        [[_z(61), _z(25)], [_z(-37), _z(-83)]],
        [[_z(880), _z(-300)], [_z(150), _z(410)]],
    ],
    [
        [[_z(0.6, 0.3), _z(-0.2, -0.9)], [_z(0.4, -0.1), _z(-0.7, 0.2)]],
        [[_z(-4.2, 6.1), _z(8.8, -1.7)], [_z(3.3, -2.2), _z(1.0, 5.0)]],
        [[_z(55, -38), _z(-12, 95)], [_z(-47, 21), _z(20, 20)]],
        [[_z(-320, 710), _z(640, 120)], [_z(150, -930), _z(-500, -100)]],
    ],
    [
        [[_z(0.9), _z(0.0)], [_z(0.3), _z(-0.6)]],
        [[_z(-2.0, 1.0), _z(6.0)], [_z(0.0), _z(5.5, -3.0)]],
        [[_z(10, 70), _z(-90)], [_z(33, 3), _z(0.0)]],
        [[_z(0.0), _z(999)], [_z(-700, 100), _z(250, 250)]],
    ],
]


def _commuting(alpha, beta, m):
    """gamma_k = alpha_k 1 + beta_k M : a commuting, in general non-diagonal tower."""
    out = []
    for al, be in zip(alpha, beta):
        al = complex(*al)
        be = complex(*be)
        mat = [[al * (1 if i == j else 0) + be * complex(*m[i][j]) for j in range(2)] for i in range(2)]
        out.append([[_z(x.real, x.imag) for x in row] for row in mat])
    return out


S_COMM = [
    # diagonal
    [
        [[_z(0.8), _z(0)], [_z(0), _z(-0.45)]],
        [[_z(7.5), _z(0)], [_z(0), _z(9.1)]],
        [[_z(61), _z(0)], [_z(0), _z(-83)]],
        [[_z(880), _z(0)], [_z(0), _z(410)]],
    ],
    # polynomials in one full matrix
    _commuting(
        [_z(0.25, 0.1), _z(-3.0, 2.0), _z(20, -15), _z(-100, 300)],
        [_z(0.75, -0.25), _z(5.0, 4.0), _z(-60, 30), _z(500, -125)],
        [[_z(0.5), _z(1.0)], [_z(-0.5), _z(-0.75)]],
    ),
]

NS_KERNEL = {
    "expanded": {2: "nlo_expanded", 3: "nnlo_expanded", 4: "n3lo_expanded"},
}
DEC = {2: "nlo", 3: "nnlo", 4: "n3lo"}


def _decide(ds, n):
    """ds: residuals at LAMBDAS.  Returns (verdict, exps) ; verdict in ok/zero/undecided/FAIL."""
    usable = [d is not None and d > FLOOR and math.isfinite(d) for d in ds]
    exps = []
    for i in range(len(ds) - 1):
        if usable[i] and usable[i + 1]:
            exps.append(math.log2(ds[i] / ds[i + 1]))
        else:
            break
    if any(d is None or not math.isfinite(d) for d in ds):
        return "FAIL-nonfinite", exps
    if not usable[0]:
        return "zero", exps
    if len(exps) < 2:
        return "below-noise", exps
    e1, e2 = exps[-2], exps[-1]
    if min(e1, e2) >= n - SLACK:
        return "ok", exps
    if abs(e1 - e2) <= WINDOW:
        return "FAIL", exps
    if max(e1, e2) < n - 1.0 - SLACK:
        # still drifting, but both a full unit short (same rule as vf/core/scaling.judge)
        return "FAIL", exps
    # not asymptotic at the smallest usable lambda although the residual is still above the noise: on the unchanged tree
    # this never happens on the lattice (a small error in the a^(n-1) coefficient produces exactly this picture: exponent n
    # at large lambda bending towards n-1), so it is reported, under its own signature
    return "undecided", exps


def _decide_richardson(deltas, n):
    """deltas: signed differences kernel - exact at LAMBDAS (complex arrays).

    Delta(lambda) = sum_k C_k lambda^k, so T_i = Delta(lambda_i) - 2^n Delta(lambda_i / 2) has no lambda^n term:
    T = -C_(n-1) lambda^(n-1) (1) + C_(n+1) lambda^(n+1) / 2 + ...; the statement allows exponent >= n + 1 only.
    Returns (verdict, exps) ; verdict in ok / ok-dip / ok-recovering / zero / few / FAIL-converged / FAIL-short / FAIL-drifting.
    """
    if any(d is None or not np.all(np.isfinite(d)) for d in deltas):
        return "nonfinite", []  # reported by the exponent rule
    ts = [float(np.max(np.abs(deltas[i] - 2.0**n * deltas[i + 1]))) for i in range(len(deltas) - 1)]
    exps = []
    for i in range(len(ts) - 1):
        if ts[i] > FLOOR_T and ts[i + 1] > FLOOR_T:
            exps.append(math.log2(ts[i] / ts[i + 1]))
        else:
            break
    if not ts[0] > FLOOR_T:
        return "zero", exps
    if len(exps) < 2:
        return "few", exps
    e1, e2 = exps[-2], exps[-1]
    thr = n + 1 - SLACK
    if min(e1, e2) >= thr:
        return "ok", exps
    if max(e1, e2) < thr - 1.0:
        return "FAIL-short", exps
    if abs(e1 - e2) <= WINDOW:
        return "FAIL-converged", exps
    if 0.5 * (e1 + e2) >= thr:
        # max|T| passes close to a zero at one of the last three lambdas (two terms of opposite sign): the two-step
        # exponent, which does not see an interior zero, is what counts
        return "ok-dip", exps
    if e2 > e1:
        return "ok-recovering", exps  # leaving such a zero upwards; a wrong low-order term bends the exponents DOWN
    return "FAIL-drifting", exps


def _ns_methods(EvoMethods):
    return [
        ("expanded", EvoMethods.ITERATE_EXPANDED, None),
        ("expanded", EvoMethods.DECOMPOSE_EXPANDED, None),
        ("expanded", EvoMethods.PERTURBATIVE_EXPANDED, None),
        ("eko_truncated", EvoMethods.TRUNCATED, None),
        ("eko_ordered_truncated", EvoMethods.ORDERED_TRUNCATED, None),
    ]


def _s_methods(EvoMethods, n, commuting):
    out = [
        ("eko_truncated", EvoMethods.TRUNCATED, (1, 10)),
        ("eko_truncated", EvoMethods.ORDERED_TRUNCATED, (1, 10)),
    ]
    for it, mo in ((1, n), (4, n), (1, n + 1), (1, 10)):
        out.append(("eko_perturbative/exact", EvoMethods.PERTURBATIVE_EXACT, (it, mo)))
        out.append(("eko_perturbative/expanded", EvoMethods.PERTURBATIVE_EXPANDED, (it, mo)))
    if commuting:
        out.append((f"{DEC[n]}_decompose_exact", EvoMethods.DECOMPOSE_EXACT, (1, 10)))
        out.append((f"{DEC[n]}_decompose_expanded", EvoMethods.DECOMPOSE_EXPANDED, (1, 10)))
    return out


def _reference(sector, ti, tower, n, nf, a0, a1):
    key = hashlib.sha1(json.dumps([sector, ti, tower, n, nf, a0, a1]).encode()).hexdigest()
    d = os.environ.get("VERIF_SCRATCH_DIR")
    path = os.path.join(d, "c08refs", key + ".json") if d else None
    if path and os.path.exists(path):
        try:
            v = json.loads(open(path).read())
            return np.array([complex(x[0], x[1]) for x in v["flat"]]).reshape(v["shape"])
        except Exception:  # noqa  (torn file: recompute)
            pass
    if sector == "ns":
        out = np.array(complex(R.ns_exact_ode(tower, n, nf, a0, a1)))
    else:
        e = R.singlet_exact_ode(tower, n, nf, a0, a1)
        out = np.array([[complex(x) for x in row] for row in e])
    if path:
        try:
            os.makedirs(os.path.dirname(path), exist_ok=True)
            tmp = f"{path}.{os.getpid()}.tmp"
            with open(tmp, "w") as fh:
                fh.write(json.dumps({"shape": list(out.shape), "flat": [[float(z.real), float(z.imag)] for z in out.reshape(-1)]}))
            os.replace(tmp, path)
        except OSError:
            pass
    return out


def _rel(got, ref):
    """max-norm deviation relative to the max-norm of the reference (absolute if the reference vanishes)"""
    got = np.asarray(got, dtype=np.complex128).reshape(-1)
    ref = np.asarray(ref, dtype=np.complex128).reshape(-1)
    if got.shape != ref.shape or not np.all(np.isfinite(got)):
        return float("inf")
    d = float(np.max(np.abs(got - ref)))
    sc = float(np.max(np.abs(ref)))
    return d / sc if sc > 0 else d


def _evaluate_coeff(case):
    """Coefficient-level oracle: R_k, U_k (k < n) of eko against the 40-digit series / Sylvester reference."""
    from eko import beta
    from eko.kernels import non_singlet as ns
    from eko.kernels import singlet as s

    res = Result()
    n = case["order"]
    nf = case["nf"]
    sector = case["sector"]
    betalist = [beta.beta_qcd((2 + i, 0), nf) for i in range(n)]  # as both dispatchers build it
    worst = 0.0
    ncmp = 0
    if sector == "ns":
        tower = NS_TOWERS[case["tower"]]
        rs, us = CO.tower_coefficients(tower, n, nf, "ns")
        g = np.array([R.to_c(z) for z in tower[:n]], dtype=np.complex128)
        try:
            U = np.array(ns.U_vec(g, betalist, (n, 0)), dtype=np.complex128)
        except Exception as ex:  # noqa
            res.fail(f"non_singlet.U_vec/order={n}/raises", f"{type(ex).__name__}: {ex} nf={nf} tower={case['tower']}")
            U = None
        if U is not None:
            for k in range(n):
                ref = complex(us[k][0])
                d = _rel(U[k : k + 1], [ref]) if len(U) > k else float("inf")
                ncmp += 1
                if math.isfinite(d):
                    worst = max(worst, d)
                if not d <= TOL_COEFF:
                    res.fail(
                        f"non_singlet.U_vec/order={n}/k={k}",
                        f"nf={nf} tower={case['tower']}: U_{k} = {U[k] if len(U) > k else None!r}, 40-digit value from the definition "
                        f"(series of gamma/beta, k U_k = R_k + sum R_(k-j) U_j) = {ref!r}, rel.dev {d:.3e} > {TOL_COEFF}",
                    )
    else:
        commuting = sector == "s-comm"
        tower = (S_COMM if commuting else S_NONCOMM)[case["tower"]]
        rs, us = CO.tower_coefficients(tower, n, nf, "s")
        rref = [np.array([complex(x) for x in rk]).reshape(2, 2) for rk in rs]
        uref = [np.array([complex(x) for x in uk]).reshape(2, 2) for uk in us]
        g = np.array([[[R.to_c(z) for z in row] for row in m] for m in tower[:n]], dtype=np.complex128)
        # every (ev_op_max_order, fill-up) configuration the kernels of this lattice are called with
        for mo in (n, n + 1, 10):
            for is_exact in (False, True):
                tag = f"max_order={'n' if mo == n else 'n+1' if mo == n + 1 else mo}/{'exact' if is_exact else 'expanded'}"
                where = f"nf={nf} sector={sector} tower={case['tower']} ev_op_max_order={mo} is_exact={is_exact}"
                try:
                    r = np.array(s.r_vec(g.copy(), betalist, (mo, 0), (n, 0), is_exact))
                    u = np.array(s.u_vec(r, (mo, 0)))
                except Exception as ex:  # noqa
                    res.fail(f"singlet.u_vec/order={n}/{tag}/raises", f"{type(ex).__name__}: {ex} {where}")
                    continue
                for k in range(n):
                    for name, got, ref in (("r_vec", r, rref), ("u_vec", u, uref)):
                        d = _rel(got[k], ref[k]) if len(got) > k else float("inf")
                        ncmp += 1
                        if math.isfinite(d):
                            worst = max(worst, d)
                        if not d <= TOL_COEFF:
                            res.fail(
                                f"singlet.{name}/order={n}/k={k}/{tag}",
                                f"{where}: {'R' if name == 'r_vec' else 'U'}_{k} = {got[k].tolist() if len(got) > k else None}, 40-digit value from the "
                                f"definition = {ref[k].tolist()}, rel.dev {d:.3e} > {TOL_COEFF}",
                            )
    res.info = {"max_coefficient_rel_dev": worst, "coefficients_compared": ncmp, "verdicts": {}}
    res.outcome = f"coeff-{sector}:" + ("equal" if not res.fails else "DIFFER")
    res.nontrivial = ncmp > 0
    return res


def evaluate(case):
    from eko.kernels import EvoMethods
    from eko.kernels import non_singlet as ns
    from eko.kernels import singlet as s

    if case.get("kind") == "coeff":
        return _evaluate_coeff(case)
    res = Result()
    n = case["order"]
    nf = case["nf"]
    a0b, a1b = case["pair"]
    sector = case["sector"]
    if sector == "ns":
        tower = NS_TOWERS[case["tower"]]
        g = np.array([R.to_c(z) for z in tower[:n]], dtype=np.complex128)
        methods = _ns_methods(EvoMethods)
    else:
        commuting = case["sector"] == "s-comm"
        tower = (S_COMM if commuting else S_NONCOMM)[case["tower"]]
        g = np.array([[[R.to_c(z) for z in row] for row in m] for m in tower[:n]], dtype=np.complex128)
        methods = _s_methods(EvoMethods, n, commuting)
    # exact references at every lambda (memoised in the run's scratch directory: the harness re-runs every
    # failing case once in the parent process, and the 40-digit references are the expensive part)
    refs = []
    for lam in LAMBDAS:
        a0, a1 = a0b * lam, a1b * lam
        refs.append((a0, a1, _reference(sector, case["tower"], tower, n, nf, a0, a1)))
    verdicts = {}
    shortfall = -10.0
    shortfall_t = -10.0
    worst = ""
    decided = 0
    for kern, meth, conf in methods:
        ds = []
        deltas = []
        err = None
        for a0, a1, ref in refs:
            try:
                if sector == "ns":
                    e = np.array(complex(ns.dispatcher((n, 0), meth, g, a1, a0, nf)))
                else:
                    e = np.array(s.dispatcher((n, 0), meth, g, a1, a0, nf, conf[0], (conf[1], 0)))
                delta = np.asarray(e - ref, dtype=np.complex128)
                d = float(np.max(np.abs(delta)))
            except Exception as ex:  # noqa
                err = f"{type(ex).__name__}: {ex}"
                d = None
                delta = None
            ds.append(d)
            deltas.append(delta)
        v, exps = _decide(ds, n)
        vt, exps_t = _decide_richardson(deltas, n)
        mod = "non_singlet" if sector == "ns" else "singlet"
        kname = NS_KERNEL["expanded"][n] if kern == "expanded" else kern
        sig = f"{mod}.{kname}/order={n}"
        where = (
            f"method={meth.name} conf(it,max_order)={conf} nf={nf} sector={sector} tower={case['tower']} base pair a0={a0b} a1={a1b}: "
            f"residuals at lambda=1..1/512 = {['%.3e' % d if d is not None else None for d in ds]}, local exponents = {['%.2f' % x for x in exps]}"
        )
        if v == "FAIL-nonfinite":
            res.fail(sig + "/nonfinite", (err or "nan/inf") + " " + where)
        elif v == "FAIL":
            res.fail(sig, f"difference to the exact solution scales like a^{exps[-1]:.2f} < a^{n}: " + where)
        elif vt.startswith("FAIL"):
            # (one defect = one signature: reported only where the exponent rule itself does not fail)
            res.fail(
                sig + "/richardson",
                f"kernel - exact with its a^{n} term eliminated, T = Delta(lambda) - 2^{n} Delta(lambda/2), scales like lambda^{exps_t[-1]:.2f} "
                f"({vt[5:]}; local exponents of max|T| above {FLOOR_T}: {['%.2f' % x for x in exps_t]}) where only lambda^{n + 1} and higher may remain: "
                f"a term below the working order is wrong. " + where,
            )
        elif v == "undecided":
            res.fail(
                sig + "/undecided",
                f"local exponents still drift at the smallest lambda with a residual above the noise floor (last two {exps[-2]:.2f}, {exps[-1]:.2f}; "
                f"required >= {n - SLACK}): " + where,
            )
        if v in ("ok", "FAIL"):
            decided += 1
        if v == "ok" and n - min(exps[-2:]) > shortfall:
            shortfall = n - min(exps[-2:])
            worst = f"{sig} method={meth.name} conf={conf} nf={nf} sector={sector} tower={case['tower']} pair={case['pair']} exps={['%.2f' % x for x in exps]}"
        key = f"{kname}:{v}"
        verdicts[key] = verdicts.get(key, 0) + 1
        # ---- Richardson-eliminated signed difference (verdict computed above)
        if vt == "ok":
            shortfall_t = max(shortfall_t, n + 1 - min(exps_t[-2:]))
        key = f"{kname}:T-{vt}"
        verdicts[key] = verdicts.get(key, 0) + 1
    res.info = {"max_exponent_shortfall_of_passing": shortfall, "max_richardson_exponent_shortfall_of_ok": shortfall_t, "worst_passing": worst, "decided": decided, "verdicts": verdicts}
    classes = sorted({k.split(":")[1] for k in verdicts if not k.split(":")[1].startswith("T-")})
    res.outcome = f"{sector}:" + ",".join(classes)
    res.nontrivial = decided > 0
    return res


def _pairs(thorough, sector):
    allp = [[a0, a1] for a0 in LA for a1 in LA if a0 != a1]
    if thorough:
        return allp if sector == "ns" else [p for p in allp if max(p) >= 0.03]
    if sector == "ns":
        return [[0.0125, 0.05], [0.05, 0.0125], [0.002, 0.05], [0.05, 0.03]]
    return [[0.0125, 0.05], [0.05, 0.0125], [0.002, 0.05]]


# kernels for which a verdict other than ok/FAIL of the exponent rule is legitimate: the decompose-exact kernels ARE the exact
# solution on commuting towers (verdict zero), the perturbative-exact kernel with ev_op_max_order = 10 differs from the exact
# solution by ~a^10 (below the noise after two halvings).  Everything else must be decided on every (case, method).
MAY_BE_EXACT = ("nlo_decompose_exact", "nnlo_decompose_exact", "n3lo_decompose_exact")
MIN_DECIDED = {"eko_perturbative/exact": 0.75}  # measured: 0.911 (quick), 0.853 (thorough), see evidence decided_fraction_per_kernel


def run(ctx):
    th = ctx.thorough()
    cases = []
    for n in (2, 3, 4):
        for nf in NFS:
            for t in range(len(NS_TOWERS)):
                for p in _pairs(th, "ns"):
                    cases.append({"sector": "ns", "order": n, "nf": nf, "tower": t, "pair": p})
                cases.append({"kind": "coeff", "sector": "ns", "order": n, "nf": nf, "tower": t})
            for t in range(len(S_NONCOMM)):
                for p in _pairs(th, "s"):
                    cases.append({"sector": "s-noncomm", "order": n, "nf": nf, "tower": t, "pair": p})
                cases.append({"kind": "coeff", "sector": "s-noncomm", "order": n, "nf": nf, "tower": t})
            for t in range(len(S_COMM)):
                for p in _pairs(th, "s"):
                    cases.append({"sector": "s-comm", "order": n, "nf": nf, "tower": t, "pair": p})
                cases.append({"kind": "coeff", "sector": "s-comm", "order": n, "nf": nf, "tower": t})
    results = ctx.run_cases(cases, evaluate)
    tot = {}
    for _, out in results:
        for k, v in ((out[3] or {}).get("verdicts") or {}).items():
            tot[k] = tot.get(k, 0) + v
    # ---- cross-case vacuity pins: a verdict that is neither ok nor FAIL is a silent pass; its number is part of the oracle
    kernels = sorted({k.split(":")[0] for k in tot})
    frac = {}
    for kn in kernels:
        cnt = {k.split(":")[1]: v for k, v in tot.items() if k.split(":")[0] == kn and not k.split(":")[1].startswith("T-")}
        total = sum(cnt.values())
        dec = cnt.get("ok", 0) + cnt.get("FAIL", 0) + cnt.get("undecided", 0) + cnt.get("FAIL-nonfinite", 0)
        frac[kn] = round(dec / total, 4) if total else 0.0
        if kn in MAY_BE_EXACT:
            continue
        need = MIN_DECIDED.get(kn, 1.0)
        if total and dec / total < need:
            ctx.add_fail(
                {"cross_case": "decided-fraction", "kernel": kn, "tier": ctx.tier},
                f"{kn}/decided-fraction",
                f"kernel {kn}: only {dec} of {total} (case, method) pairs were decided by the exponent rule (verdicts {cnt}); required fraction {need}: "
                "a kernel that coincides with the exact solution or whose residual is below the noise is not being tested",
            )
    wl = sorted(((out[3] or {}).get("max_exponent_shortfall_of_passing", -10), (out[3] or {}).get("worst_passing", "")) for _, out in results if (out[3] or {}).get("worst_passing") is not None and "max_exponent_shortfall_of_passing" in (out[3] or {}))
    ctx.extra.update(
        verdicts_per_kernel=tot,
        decided_fraction_per_kernel=frac,
        closest_passing=[f"{a:.3f} {b}" for a, b in wl[-3:]],
        coefficients_compared=sum((out[3] or {}).get("coefficients_compared", 0) for _, out in results),
    )
    ctx.rule = (
        "complete product order 2-4 x nf 3-6 x towers x base coupling pairs; NS: 6 complex towers, methods "
        "{iterate,decompose,perturbative}-expanded, truncated, ordered-truncated; singlet: 3 non-commuting complex 2x2 towers (one with a "
        "triangular gamma_0) with truncated, ordered-truncated, perturbative-exact/-expanded at (iterations, ev_op_max_order) in "
        "{(1,n),(4,n),(1,n+1),(1,10)}; commuting towers (one diagonal, one polynomial in a full matrix) additionally "
        "with decompose-exact/-expanded. Each case is scaled by lambda=2^0..2^-9 (10 exact references per case). "
        f"Base pairs: ordered pairs of {LA} (quick: 4 for NS - ratio 4 up/down, 25 up, 0.6 down - and the first 3 of them for the singlet; thorough: all 20 for NS, the 14 reaching 0.03 for the singlet). "
        "A (case, method) is decided when two local exponents exist above the 1e-13 noise floor; non-trivial = "
        "at least one method decided. Per (case, method) also the Richardson-eliminated signed difference (verdicts 'T-...'). "
        "Plus one coefficient case per (order, nf, tower): non_singlet.U_vec resp. singlet.r_vec / u_vec at ev_op_max_order in {n, n+1, 10} x "
        "fill-up {expanded, exact}, entries k < n, against the 40-digit series / Sylvester reference"
    )
    ctx.assumptions += [
        "exponent rule of DESIGN 2.3: last two local exponents >= n-0.25 pass; they fail when both agree to 0.1 "
        "(asymptotic window reached) and one is below n-0.25, or when both are more than one unit short; exponents still drifting at the "
        "smallest lambda above the noise are reported as '<signature>/undecided' (none on the unchanged tree); residuals < 1e-13 count as zero",
        f"Richardson rule: T_i = Delta(lambda_i) - 2^n Delta(lambda_i/2) (signed, entrywise), local exponents of max|T| above {FLOOR_T}; last two "
        "both >= n+1-0.25 pass; fail when both are more than one unit short, when they agree to 0.1 below the threshold, or when they are below it "
        "and bend downwards; a pair whose mean reaches the threshold (max|T| passing near a zero) or that bends upwards (leaving such a zero) passes; "
        "fewer than two exponents above the floor: not judged (counted as T-few / T-zero)",
        f"coefficient rule: max-norm relative deviation <= {TOL_COEFF} for R_k, U_k, k < n (terms k >= n - fill-up of the exact variant, higher U_k - are "
        "beyond the working order and left to C12); beta_k as the dispatchers build them (eko.beta) against my table",
        "every kernel except decompose-exact (exact on commuting towers) must be decided by the exponent rule on all its (case, method) pairs, "
        "perturbative-exact on >= 75 % (measured 91 % quick, 85 % thorough; ev_op_max_order = 10 puts its residual below the noise for small base couplings)",
        "perturbative methods are required to reach the working order only for ev_op_max_order >= n (the number of "
        "U-matrices kept is the user's setting)",
        "decompose methods only on commuting towers (statement); 'exact kernel' = 40-digit path-ordered ODE solution "
        "with gamma and beta truncated at order n",
        "interpreted mode (NUMBA_DISABLE_JIT=1)",
    ]
