"""C36 EKO archives round-trip all their content (X-num product + X-hist edit sessions).

Part A (kind="roundtrip"): complete product of key sets (0-6 evolution points, scales as Python
float / NumPy float64 / int, flavour numbers as int / NumPy int64, scales one ulp apart, same
scale with two nf, int and float spelling of the same point, repr edge values) x operator shapes
x payload classes (finite, all special bit patterns incl. signed zeros, +-inf, NaN payloads,
denormals, max; Fortran-ordered and strided memory) x error layouts x card variants. Each is
written into a real EKO, closed, re-read from the tar and compared with the reference (a dict
keyed by (float(scale), int(nf)) holding the exact bytes) and with the cards / metadata that were
put in. Further dimensions of part A (on sub-lattices, see `run`): `extras` (the other four
inventories of an EKO: recipes / matching recipes (header only) and parts / matching parts (header +
operator), headers with Python and NumPy fields and both bool values), `via` (the way the archive is
finished and re-read: close(), `with` on the EKO, `with` on the Builder, dump() on the default path,
deepcopy() to a second archive, read(extract=False) of the unpacked tar) and non-square shapes
(EKO.load documents that it refuses them: either the content comes back or exactly that refusal).

Part B (kind="edit"): every history of length <= depth over the 14-operation edit alphabet
{overwrite one (stored with / without error, by a value with / without error), add one (float
key, NumPy key, key one ulp from an existing one), touch xgrid (same, new values, linear flag),
load one, nothing, add a recipe + part, change metadata.origin + update()}, applied to a closed
3-operator archive (which also holds 2 recipes, 1 matching recipe, 1 part, 1 matching part) either in
ONE edit session or one session per operation, then closed and re-read: everything not explicitly
changed is bit-identical, everything explicitly changed has the new value.
"""

import itertools
import os
import shutil

import numpy as np

from vf.core import cards
from vf.core.ctx import Result
from vf.ref import c36_canon as cn

ID = "C36"
LEVEL = "exploration"
TECHNIQUE = (
    "complete product of key sets x shapes x payload classes x error layouts x cards through the real "
    "EKO create/close/read, plus all edit histories to a depth bound, against a dict-of-bytes reference"
)
LEVEL_TEXT = (
    "every point of the stated product and every edit history up to the depth bound is executed on the real "
    "archive code (tar, lz4, npy/npz, YAML headers, metadata) and the re-read content (operators, the four recipe / part "
    "inventories, cards, metadata) is compared bit for bit (arrays) and field by field (headers with their types, cards, "
    "metadata, NaN-aware) with what was written; archives are finished by close(), both context managers, dump() and deepcopy()"
)
LEVEL_NOTE = (
    "decides the property on the enumerated lattice only (float64 operators, square shapes up to 14x8x14x8, "
    "<= 6 points, <= 8 recipes / 5 parts, <= 3 edit operations); trusted: numpy tobytes, the 60-line canonicaliser vf/ref/c36_canon.py"
)
FLOOR_NONTRIVIAL = 50

# ----------------------------------------------------------------------------- lattices
GRIDS = {2: [0.5, 1.0], 3: [0.1, 0.5, 1.0], 8: [1e-7, 1e-5, 1e-3, 0.01, 0.1, 0.3, 0.7, 1.0]}
SHAPES = [[1, 2, 1, 2], [2, 3, 2, 3], [14, 8, 14, 8]]


def F(v, ulp=0):
    return ["float", v, ulp]


def NP(v, ulp=0):
    return ["np", v, ulp]


def I(v):
    return ["int", v, 0]


PI, NI = ["int"], ["np"]  # nf type tags

# name -> list of [scale_spec, nf_type, nf]
KEYSETS = {
    "empty": [],
    "one-float": [[F(10.0), "int", 4]],
    "one-np": [[NP(10.0), "int", 4]],
    "one-int": [[I(10), "int", 4]],
    "np-nf": [[F(10.0), "np", 4]],
    "np-both": [[NP(10.0), "np", 4]],
    "ulp-pair": [[F(10.0, 0), "int", 4], [F(10.0, 1), "int", 4]],
    "ulp-pair-np": [[NP(10.0, 0), "int", 4], [NP(10.0, 1), "int", 4]],
    "ulp-triple": [[F(100.0, -1), "int", 5], [F(100.0, 0), "int", 5], [F(100.0, 1), "int", 5]],
    "two-nf": [[F(10.0), "int", 4], [F(10.0), "int", 5]],
    "repr-edge": [
        [F(1e30), "int", 6],
        [F(1e-7), "int", 3],
        [F(1.65**2), "int", 4],
        [F(1e16), "int", 6],
        [F(0.1 + 0.2), "int", 3],
    ],
    "int-float-same-point": [[I(10), "int", 4], [F(10.0), "int", 4]],
    "six-mixed": [
        [F(10.0), "int", 4],
        [NP(20.25), "int", 5],
        [I(100), "int", 5],
        [F(10.0, 1), "int", 4],
        [F(10.0), "np", 5],
        [NP(1e4), "np", 6],
    ],
}
PAYLOADS_QUICK = ["finite", "special", "zeros"]
PAYLOADS_ALL = ["finite", "special", "zeros", "fortran", "view"]
ERRS = ["none", "all", "alternating"]

# card variants (config deviations for vf.core.cards.build); xgrid is set from the operator shape
CARDS = [
    dict(),
    dict(
        order=[3, 0], scheme="MSBAR", mass_refs=[2.0, 4.5, 173.07], ratios=[0.5, 1.0, 2.0], xif=2.0,
        method="truncated", sv="exponentiated", mugrid=[[10.0, 4], [100.0, 5]], init=[2.0, 4],
    ),
    dict(order=[2, 0], ratios=[1.0, "inf", "inf"], inversion="exact", init=[1.0, 3], mugrid=[]),
    dict(order=[2, 2], em_running=True, alphaem=0.0078125, ref=[91.1876, 5], method="iterate-expanded", iterations=3),
    dict(
        order=[4, 0], n3lo_ad_variation=[1, 2, 3, 1, 2, 3, 1], use_fhmruvv=False, matching_order=[2, 0],
        method="perturbative-exact", max_order=[7, 0], sv="expanded", inversion="expanded",
    ),
    dict(
        polarized=True, is_log=False, cores=4, skip_singlet=True,
        mugrid=[[3.0, 3], [3.0, 4], [1.0e3, 6]], init=[1.0e2, 5], masses=[1.51, 4.92, 172.5],
    ),
    # the default card declared linear, with the grid object carrying the linear flag (see _cards)
    dict(_linear_xgrid=True, is_log=False),
]


def _cards(variant, n):
    from eko.interpolation import XGrid

    cfg = dict(CARDS[variant])
    lin = cfg.pop("_linear_xgrid", False)
    cfg["xgrid"] = GRIDS[n]
    th, op = cards.build(cfg)
    if lin:
        op.xgrid = XGrid(GRIDS[n], log=False)
    return th, op


def _scale(spec):
    kind, v, ulp = spec
    x = float(v)
    for _ in range(abs(ulp)):
        x = float(np.nextafter(x, np.inf if ulp > 0 else -np.inf))
    if kind == "float":
        return x
    if kind == "np":
        return np.float64(x)
    if kind == "int":
        return int(v)
    raise ValueError(kind)


def _nf(kind, v):
    return int(v) if kind == "int" else np.int64(v)


def _mkey(scale, nf):
    return (float(scale), int(nf))


def _np_sig(keyspecs):
    """Signature of the NumPy-header defect class a key list belongs to (None: no NumPy number)."""
    if any(k[0][0] == "np" for k in keyspecs):
        return "Inventory.setitem/header-numpy-scalar/np-scale"
    if any(k[1] == "np" for k in keyspecs):
        return "Inventory.setitem/header-numpy-scalar/np-nf"
    return None


def _dest(path):
    return path.with_name(f"x-{path.stem}")


def _cleanup(path, *ekos):
    for e in ekos:
        try:
            if e is not None and e.access.open:
                shutil.rmtree(e.metadata.path, ignore_errors=True)
        except Exception:
            pass
    for p in (path, path.with_name(path.name + ".tmp")):
        try:
            os.unlink(p)
        except OSError:
            pass
    shutil.rmtree(_dest(path), ignore_errors=True)


def _read(path, dest):
    from eko.io.struct import EKO

    return EKO.read(path, dest=dest)


# ----------------------------------------------------------------------------- the other four inventories
EXTRAS = ["none", "recipes+parts"]
VIAS = ["close", "with-eko", "with-builder", "dump", "deepcopy", "noextract"]
INVENTORIES = ["recipes", "recipes_matching", "parts", "parts_matching"]
NONSQUARE = [[2, 3, 2, 2], [1, 2, 2, 2]]

# header specs: [class, [field values as JSON], [indices of fields given as NumPy scalars]]
X_RECIPES = [
    ["Evolution", [4.0, 9.0, 4, False], []],
    ["Evolution", [9.0, 25.0, 5, True], [1]],
    ["Evolution", [25.0, 100.0, 5, False], [0, 2]],
    ["Evolution", [25.0, 100.0, 6, False], []],  # same scales, other nf
    ["Evolution", [9.0, 25.0, 5, False], []],  # differs from the 2nd one in `cliff` only
    ["Matching", [9.0, 5, False], []],
    ["Matching", [9.0, 5, True], [0, 1]],  # differs from the previous one in `inverse` only
    ["Matching", [25.0, 6, False], [0]],
]
X_PARTS = [0, 1, 2, 5, 6]  # indices into X_RECIPES of the headers that also get an operator (even position: with error)


def _header(spec):
    from eko.io.items import Evolution, Matching

    cls, vals, npidx = spec
    out = []
    for i, v in enumerate(vals):
        if i in npidx:
            v = np.float64(v) if isinstance(v, float) else np.int64(v)
        out.append(v)
    return (Evolution if cls == "Evolution" else Matching)(*out)


def _hkey(spec):
    """What a re-read header must be: class name + (field type, value) of plain Python numbers."""
    cls, vals, _ = spec
    return (cls,) + tuple((type(v).__name__, v) for v in vals)


def _hkey_of(h):
    import dataclasses

    return (type(h).__name__,) + tuple((type(getattr(h, f.name)).__name__, getattr(h, f.name)) for f in dataclasses.fields(h))


def _inv_of(spec, part):
    if spec[0] == "Evolution":
        return "parts" if part else "recipes"
    return "parts_matching" if part else "recipes_matching"


def _new_xmodel():
    return {name: {} for name in INVENTORIES}


def _write_extras(e, xmodel, shape, payload, specs=None, parts=None, salt0=300):
    """Put recipes (in bulk, as the runner does) and parts into `e`; record them in `xmodel`."""
    from eko.io.items import Operator

    specs = X_RECIPES if specs is None else specs
    parts = X_PARTS if parts is None else parts
    e.load_recipes([_header(s) for s in specs])
    for s in specs:
        xmodel[_inv_of(s, False)][_hkey(s)] = None
    for n, i in enumerate(parts):
        s = specs[i]
        a = cn.payload(shape, payload, salt=salt0 + n)
        err = cn.payload(shape, payload, salt=salt0 + 50 + n) if n % 2 == 0 else None
        inv = e.parts if s[0] == "Evolution" else e.parts_matching
        inv[_header(s)] = Operator(a, err)
        xmodel[_inv_of(s, True)][_hkey(s)] = (a, err, payload, s)


def _compare_extras(res, e, xmodel, sigroot, where):
    """Recipes / parts of a re-read EKO against what was written (nothing lost, nothing invented)."""
    for name in INVENTORIES:
        want = xmodel[name]
        inv = getattr(e, name)
        try:
            inv.sync()
            got = list(inv)
        except Exception as exc:  # noqa
            res.fail(f"{sigroot}/extras/sync-raises", f"{where}: {type(exc).__name__}: {str(exc)[:200]}")
            continue
        gk = [_hkey_of(h) for h in got]
        if len(gk) != len(set(gk)) or set(gk) != set(want):
            miss = sorted(map(str, set(want) - set(gk)))[:2]
            more = sorted(map(str, set(gk) - set(want)))[:2]
            res.fail(
                f"{sigroot}/extras/headers",
                f"{where}: {name} re-read {len(gk)} headers, written {len(want)}; missing {miss} unexpected {more} "
                "(compared by class, field value and field type)",
            )
            continue
        for h in got:
            w = want[_hkey_of(h)]
            try:
                o = inv[h]
            except Exception as exc:  # noqa
                res.fail(f"{sigroot}/extras/get-raises", f"{where}: {name}[{h}] raised {type(exc).__name__}: {str(exc)[:200]}")
                continue
            if w is None:
                if o is not None:
                    res.fail(f"{sigroot}/extras/content", f"{where}: recipe {h} carries content {type(o).__name__}")
                continue
            a, err, klass, _ = w
            if o is None:
                res.fail(f"{sigroot}/extras/content", f"{where}: part {h} has no operator")
                continue
            d = cn.same_bits(o.operator, np.ascontiguousarray(a))
            if d:
                res.fail(f"{sigroot}/extras/operator-bits/{klass}", f"{where}: {name}[{h}]: {d}")
            if (o.error is None) != (err is None):
                res.fail(f"{sigroot}/extras/error-presence", f"{where}: {name}[{h}] error stored={err is not None} loaded={o.error is not None}")
            elif err is not None:
                d = cn.same_bits(o.error, np.ascontiguousarray(err))
                if d:
                    res.fail(f"{sigroot}/extras/error-bits/{klass}", f"{where}: {name}[{h}] error: {d}")


def _compare_content(res, e, model, th, op, sigroot, where, lin_expected=None, xmodel=None, origin_expected=None):
    """Compare a re-read EKO `e` with the reference model (dict key -> (op_bytes_array, err))."""
    import eko.version as vmod

    # ---- keys
    try:
        got_keys = list(e)
    except Exception as exc:  # noqa
        res.fail(f"{sigroot}/keys-raises", f"{where}: iterating raised {type(exc).__name__}: {exc}")
        return
    try:
        gk = [_mkey(*k) for k in got_keys]
    except Exception as exc:  # noqa
        res.fail(f"{sigroot}/key-types", f"{where}: re-read evolution points {got_keys!r} are not (number, number): {type(exc).__name__}")
        return
    if len(gk) != len(set(gk)) or set(gk) != set(model):
        res.fail(f"{sigroot}/keys", f"{where}: evolution points {sorted(gk)} expected {sorted(model)}")
        return
    # an evolution point read from an archive is (scale: plain float or int, nf: plain int): no string, bool, float nf
    bad = [(s, n) for s, n in got_keys if type(n) is not int or type(s) not in (float, int)]
    if bad or any(type(k) is not tuple or len(k) != 2 for k in got_keys):
        res.fail(
            f"{sigroot}/key-types",
            f"{where}: re-read evolution points {bad or got_keys!r} have types "
            f"{[(type(s).__name__, type(n).__name__) for s, n in (bad or got_keys)]}, expected (float|int, int)",
        )
    # ---- the other views of the key set
    try:
        if sorted(float(m) for m in e.mu2grid) != sorted(k[0] for k in gk):
            res.fail(f"{sigroot}/mu2grid", f"{where}: mu2grid {e.mu2grid} vs evolution points {got_keys}")
        if list(e.evolgrid) != got_keys:
            res.fail(f"{sigroot}/evolgrid", f"{where}: evolgrid {e.evolgrid} vs iteration {got_keys}")
        absent = [k for k in model if k not in e]
        if absent:
            res.fail(f"{sigroot}/contains", f"{where}: `in` is False for stored points {absent}")
        phantom = [q for q in [(k[0] * 2, k[1]) for k in model] + [(k[0], k[1] + 1) for k in model] + [(7.0, 4)] if q not in model and q in e]
        if phantom:
            res.fail(f"{sigroot}/contains", f"{where}: `in` is True for points never stored {phantom}")
    except Exception as exc:  # noqa
        res.fail(f"{sigroot}/keys-raises", f"{where}: mu2grid / evolgrid / in raised {type(exc).__name__}: {str(exc)[:200]}")
    # ---- operators, by key lookup and by items()
    maxdev = 0
    for k, (a, err, klass) in model.items():
        try:
            o = e[k]
        except Exception as exc:  # noqa
            res.fail(f"{sigroot}/get-raises", f"{where}: eko[{k}] raised {type(exc).__name__}: {str(exc)[:200]}")
            continue
        d = cn.same_bits(o.operator, np.ascontiguousarray(a))
        if d:
            res.fail(f"{sigroot}/operator-bits/{klass}", f"{where}: operator at {k}: {d}")
        if (o.error is None) != (err is None):
            res.fail(f"{sigroot}/error-presence", f"{where}: at {k} error stored={err is not None} loaded={o.error is not None}")
        elif err is not None:
            d = cn.same_bits(o.error, np.ascontiguousarray(err))
            if d:
                res.fail(f"{sigroot}/error-bits/{klass}", f"{where}: error at {k}: {d}")
    try:
        n_items = 0
        for ep, o in e.items():
            n_items += 1
            a, err, klass = model[_mkey(*ep)]
            if cn.same_bits(o.operator, np.ascontiguousarray(a)):
                res.fail(f"{sigroot}/items-operator-bits/{klass}", f"{where}: items() operator at {ep} differs from what was stored")
        if n_items != len(model):
            res.fail(f"{sigroot}/items-count", f"{where}: items() yielded {n_items}, expected {len(model)}")
    except Exception as exc:  # noqa
        res.fail(f"{sigroot}/items-raises", f"{where}: items() raised {type(exc).__name__}: {str(exc)[:200]}")
    # ---- cards
    flagged = False
    for name, want in (("theory", th), ("operator", op)):
        try:
            got = e.theory_card if name == "theory" else e.operator_card
        except Exception as exc:  # noqa
            res.fail(f"{sigroot}/{name}-card-raises", f"{where}: {type(exc).__name__}: {str(exc)[:300]}")
            continue
        cw, cg = cn.canon(want), cn.canon(got)
        if name == "operator" and cw["xgrid"]["log"] != cg["xgrid"]["log"]:
            flagged = True
            cg["xgrid"]["log"] = cw["xgrid"]["log"]
        d = cn.first_diff(cw, cg)
        if d:
            res.fail(f"{sigroot}/{name}-card", f"{where}: written vs re-read {d}")
    # ---- metadata
    md = e.metadata
    want_log = op.xgrid.log if lin_expected is None else lin_expected[1]
    want_grid = np.asarray(op.xgrid.raw if lin_expected is None else lin_expected[0], dtype=float)
    want_origin = (op.init[0] ** 2, op.init[1]) if origin_expected is None else tuple(origin_expected)
    if tuple(md.origin) != want_origin or len(md.origin) != 2:
        res.fail(f"{sigroot}/metadata/origin", f"{where}: origin {md.origin} expected {want_origin}")
    elif not isinstance(md.origin, tuple) or type(md.origin[1]) is not int or type(md.origin[0]) not in (float, int):
        res.fail(
            f"{sigroot}/metadata/origin-types",
            f"{where}: origin {md.origin!r} is {type(md.origin).__name__} of {[type(x).__name__ for x in md.origin]}, "
            "written as a tuple (float, int)",
        )
    if np.asarray(md.xgrid.raw, dtype=float).tobytes() != want_grid.tobytes():
        res.fail(f"{sigroot}/metadata/xgrid", f"{where}: xgrid {md.xgrid.raw.tolist()} expected {want_grid.tolist()}")
    if bool(md.xgrid.log) != bool(want_log):
        flagged = True
    if md.version != vmod.__version__ or md.data_version != vmod.__data_version__:
        res.fail(
            f"{sigroot}/metadata/version",
            f"{where}: version {md.version}/{md.data_version} expected {vmod.__version__}/{vmod.__data_version__}",
        )
    # ---- recipes, parts (written or not: nothing lost, nothing invented)
    _compare_extras(res, e, _new_xmodel() if xmodel is None else xmodel, sigroot, where)
    if flagged:
        res.fail(
            "EKO/xgrid-log-flag-lost",
            f"{where}: the grid was written with log={want_log}; re-read operator card / metadata carry "
            f"log={md.xgrid.log} (the YAML form of an XGrid has no flag)",
        )


# ----------------------------------------------------------------------------- part A
def _path2(path):
    return path.with_name(f"y-{path.stem}.tar")


def eval_roundtrip(case):
    import tarfile

    from eko.io.items import Operator
    from eko.io.struct import EKO

    keyspecs = KEYSETS[case["keys"]]
    shape = tuple(case["shape"])
    extras = case.get("extras", "none")
    via = case.get("via", "close")
    square = shape[0] == shape[2] and shape[1] == shape[3]
    th, op = _cards(case["card"], shape[1])
    path = cards.scratch_path("c36")
    path2 = _path2(path)
    res = Result()
    where = f"keys={case['keys']} shape={list(shape)} payload={case['payload']} err={case['err']} card={case['card']}"
    if "extras" in case or "via" in case:
        where += f" extras={extras} via={via}"
    model = {}
    xmodel = _new_xmodel()
    e = e2 = e3 = None

    def fill(e):
        for i, (sspec, nfk, nf) in enumerate(keyspecs):
            a = cn.payload(shape, case["payload"], salt=i)
            with_err = case["err"] == "all" or (case["err"] == "alternating" and i % 2 == 0)
            err = cn.payload(shape, case["payload"], salt=50 + i) if with_err else None
            key = (_scale(sspec), _nf(nfk, nf))
            e[key] = Operator(a, err)
            model[_mkey(*key)] = (a, err, case["payload"])
        if extras == "recipes+parts":
            _write_extras(e, xmodel, shape, case["payload"])

    try:
        try:
            if via == "with-eko":
                with EKO.create(path).load_cards(th, op).build() as e:
                    fill(e)
            elif via == "with-builder":
                with EKO.create(path) as builder:
                    e = builder.load_cards(th, op).build()
                    fill(e)
            elif via == "dump":
                e = EKO.create(path).load_cards(th, op).build()
                fill(e)
                e.dump()  # on the registered path; the object stays open (removed in _cleanup)
            else:
                e = EKO.create(path).load_cards(th, op).build()
                fill(e)
                e.close()
        except Exception as exc:  # noqa
            res.fail("EKO-roundtrip/write-raises" + ("" if via == "close" else f"/via={via}"), f"{where}: {type(exc).__name__}: {str(exc)[:300]}")
            res.outcome = "write-raises"
            return res
        dest = _dest(path)
        sigroot = "EKO-roundtrip"  # content differences: one signature whatever the way of finishing (it is in the message)
        try:
            if via == "noextract":
                with tarfile.open(path) as tar:
                    tar.extractall(dest)
                e2 = EKO.read(dest, extract=False)
            else:
                e2 = _read(path, dest)
        except Exception as exc:  # noqa
            shutil.rmtree(dest, ignore_errors=True)
            if not square:
                # EKO.load: "Loading not squared EKOs is no longer possible." (ValueError) is the documented answer
                if type(exc) is ValueError and "not squared" in str(exc):
                    res.outcome = "nonsquare:refused"
                    res.nontrivial = False
                    return res
                res.fail("EKO-roundtrip/nonsquare/reread-raises", f"{where}: EKO.read raised {type(exc).__name__}: {str(exc)[:200]}")
                res.outcome = "reread-raises"
                return res
            sig = _np_sig(keyspecs) or "EKO-roundtrip/reread-raises"
            if via != "close":
                sig = f"EKO-roundtrip/via={via}/reread-raises"
            res.fail(sig, f"{where}: EKO.read raised {type(exc).__name__}: {str(exc)[:200]}")
            res.outcome = "reread-raises"
            return res
        if not square:
            sigroot = "EKO-roundtrip/nonsquare"
        if via == "deepcopy":
            # a second writer of archives: copy the re-read object to another archive; both must hold the model
            try:
                with e2 as r:
                    r.deepcopy(path2)
                e2 = _read(path, dest)
            except Exception as exc:  # noqa
                res.fail("EKO-roundtrip/via=deepcopy/deepcopy-raises", f"{where}: {type(exc).__name__}: {str(exc)[:200]}")
                res.outcome = "deepcopy-raises"
                return res
            _compare_content(res, e2, model, th, op, sigroot + "/source", where + " [source archive after deepcopy]", xmodel=xmodel)
            e2.close()
            try:
                e3 = _read(path2, dest)
            except Exception as exc:  # noqa
                res.fail("EKO-roundtrip/via=deepcopy/reread-raises", f"{where}: EKO.read of the copy raised {type(exc).__name__}: {str(exc)[:200]}")
                res.outcome = "reread-raises"
                return res
            _compare_content(res, e3, model, th, op, sigroot, where + " [copy]", xmodel=xmodel)
            e3.close()
        else:
            _compare_content(res, e2, model, th, op, sigroot, where, xmodel=xmodel)
            e2.close()
        res.outcome = ("" if via == "close" else via + ":") + ("" if extras == "none" else "x:") + f"n={len(model)}:" + ("ok" if not res.fails else "differs")
        if not square:
            res.outcome = "nonsquare:" + res.outcome
        res.nontrivial = len(model) > 0 or extras != "none"
        res.info = {
            "max_points": len(model),
            "max_bytes_compared": sum(a.nbytes * (2 if er is not None else 1) for a, er, _ in model.values()),
            "max_extra_headers": sum(len(v) for v in xmodel.values()),
        }
        return res
    finally:
        _cleanup(path, e, e2, e3)
        try:
            os.unlink(path2)
        except OSError:
            pass


# ----------------------------------------------------------------------------- part B
EDIT_K = [(10.0, 4), (20.0, 5), (30.0, 5)]  # stored: K0 without error, K1 with error, K2 without
EDIT_SHAPE = (2, 3, 2, 3)
EDIT_CARD = 1
NEWGRID = [0.2, 0.6, 1.0]


def edit_alphabet():
    ops = [["ow", k, v] for k in (0, 1) for v in ("E", "N")]
    ops += [["add", "float"], ["add", "np"], ["add", "ulp"]]
    ops += [["xgrid", "same"], ["xgrid", "new"], ["xgrid", "lin"]]
    ops += [["get", 0], ["nop"]]
    ops += [["add_part"], ["origin"]]
    return ops


# what the archive under edit holds besides its 3 operators (indices into X_RECIPES) and what `add_part` adds
EDIT_BASE_RECIPES = [X_RECIPES[0], X_RECIPES[1], X_RECIPES[6]]
EDIT_BASE_PARTS = [0, 2]  # Evolution part with error, Matching part without
EDIT_NEW_RECIPES = [["Evolution", [100.0, 400.0, 5, True], [1]], ["Matching", [400.0, 6, False], []]]


def _edit_key(kind):
    if kind == "float":
        return (40.0, 6)
    if kind == "np":
        return (np.float64(50.0), 6)
    if kind == "ulp":
        return (float(np.nextafter(10.0, np.inf)), 4)
    raise ValueError(kind)


def eval_edit(case):
    from eko.interpolation import XGrid
    from eko.io.items import Operator
    from eko.io.struct import EKO

    hist = list(case["history"])
    mode = case["mode"]
    th, op = _cards(EDIT_CARD, EDIT_SHAPE[1])
    path = cards.scratch_path("c36e")
    res = Result()
    where = f"mode={mode} history={hist}"
    model = {}
    xmodel = _new_xmodel()
    origin = (op.init[0] ** 2, op.init[1])
    xg = (list(op.xgrid.raw), True)
    e = e2 = None
    try:
        # ---- the archive under edit (3 operators, 3 recipes, 2 parts; written, closed)
        e = EKO.create(path).load_cards(th, op).build()
        for i, k in enumerate(EDIT_K):
            a = cn.payload(EDIT_SHAPE, "special", salt=i)
            err = cn.payload(EDIT_SHAPE, "special", salt=50 + i) if i == 1 else None
            e[k] = Operator(a, err)
            model[_mkey(*k)] = (a, err, "special")
        _write_extras(e, xmodel, EDIT_SHAPE, "special", specs=EDIT_BASE_RECIPES, parts=EDIT_BASE_PARTS)
        e.close()
        e = None
        # ---- edit session(s)
        last = "none"
        try:
            for j, o in enumerate(hist):
                if e is None:
                    e = EKO.edit(path)
                last = o[0]
                if o[0] == "ow":
                    a = cn.payload(EDIT_SHAPE, "special", salt=100 + j)
                    err = cn.payload(EDIT_SHAPE, "special", salt=150 + j) if o[2] == "E" else None
                    e[EDIT_K[o[1]]] = Operator(a, err)
                    model[_mkey(*EDIT_K[o[1]])] = (a, err, "special")
                elif o[0] == "add":
                    a = cn.payload(EDIT_SHAPE, "finite", salt=200 + j)
                    err = cn.payload(EDIT_SHAPE, "finite", salt=250 + j) if j % 2 else None
                    k = _edit_key(o[1])
                    e[k] = Operator(a, err)
                    model[_mkey(*k)] = (a, err, "finite")
                elif o[0] == "xgrid":
                    if o[1] == "same":
                        e.xgrid = XGrid(list(xg[0]), log=xg[1])
                    elif o[1] == "new":
                        xg = (NEWGRID, xg[1])
                        e.xgrid = XGrid(NEWGRID, log=xg[1])
                    else:
                        xg = (xg[0], False)
                        e.xgrid = XGrid(list(xg[0]), log=False)
                elif o[0] == "get":
                    _ = e[EDIT_K[o[1]]]
                elif o[0] == "nop":
                    pass
                elif o[0] == "add_part":
                    # a new recipe + matching recipe, a part for the first one (overwritten by a later add_part)
                    _write_extras(e, xmodel, EDIT_SHAPE, "finite", specs=EDIT_NEW_RECIPES, parts=[0] if j % 2 == 0 else [1, 0], salt0=400 + 10 * j)
                elif o[0] == "origin":
                    # the documented manual path: change a metadata attribute, then update()
                    origin = (6.25 + j, 3)
                    e.metadata.origin = origin
                    e.update()
                else:
                    raise ValueError(o)
                if mode == "each":
                    e.close()
                    e = None
            if e is None and not hist:
                e = EKO.edit(path)
            if e is not None:
                e.close()
                e = None
        except Exception as exc:  # noqa
            np_hist = any(o[:2] == ["add", "np"] for o in hist)
            sig = (
                "Inventory.setitem/header-numpy-scalar/np-scale"
                if np_hist and "constructor" in str(exc)
                else f"EKO-edit/session-raises/{last}"
            )
            res.fail(sig, f"{where}: {type(exc).__name__}: {str(exc)[:200]}")
            res.outcome = "session-raises"
            return res
        dest = _dest(path)
        try:
            e2 = _read(path, dest)
        except Exception as exc:  # noqa
            np_hist = any(o[:2] == ["add", "np"] for o in hist)
            sig = "Inventory.setitem/header-numpy-scalar/np-scale" if np_hist else "EKO-edit/reread-raises"
            res.fail(sig, f"{where}: EKO.read raised {type(exc).__name__}: {str(exc)[:200]}")
            res.outcome = "reread-raises"
            shutil.rmtree(dest, ignore_errors=True)
            return res
        _compare_content(res, e2, model, th, op, "EKO-edit", where, lin_expected=xg, xmodel=xmodel, origin_expected=origin)
        e2.close()
        res.outcome = f"{mode}:{'+'.join(sorted({o[0] for o in hist})) or 'empty'}:" + ("ok" if not res.fails else "differs")
        res.nontrivial = any(o[0] != "nop" for o in hist)
        res.info = {"max_points": len(model), "max_history": len(hist), "max_extra_headers": sum(len(v) for v in xmodel.values())}
        return res
    finally:
        _cleanup(path, e, e2)


def evaluate(case):
    if case["kind"] == "roundtrip":
        return eval_roundtrip(case)
    if case["kind"] == "edit":
        return eval_edit(case)
    raise ValueError(case["kind"])


def run(ctx):
    thorough = ctx.thorough()
    cases = []
    payloads = PAYLOADS_ALL if thorough else PAYLOADS_QUICK
    seen = set()

    def add(keys, shape, payload, err, card):
        k = (keys, tuple(shape), payload, err, card)
        if k not in seen:
            seen.add(k)
            cases.append(dict(kind="roundtrip", keys=keys, shape=list(shape), payload=payload, err=err, card=card))

    if thorough:
        for keys, shape, payload, err, card in itertools.product(KEYSETS, SHAPES, payloads, ERRS, range(len(CARDS))):
            add(keys, shape, payload, err, card)
    else:
        for keys, shape, payload, err in itertools.product(KEYSETS, SHAPES, payloads, ERRS):
            add(keys, shape, payload, err, 0)
        for keys, card in itertools.product(KEYSETS, range(1, len(CARDS))):
            add(keys, SHAPES[1], "special", "alternating", card)
    n_base = len(cases)
    # ---- sub-lattices: the other inventories, the ways of finishing / re-reading, the refused shapes
    xseen = set()

    def addx(keys, shape, payload, err, extras, via):
        k = (keys, tuple(shape), payload, err, extras, via)
        if k not in xseen and not (extras == "none" and via == "close" and (keys, tuple(shape), payload, err, 0) in seen):
            xseen.add(k)
            cases.append(dict(kind="roundtrip", keys=keys, shape=list(shape), payload=payload, err=err, card=0, extras=extras, via=via))

    xkeys = list(KEYSETS) if thorough else ["six-mixed", "empty", "np-both"]
    vkeys = list(KEYSETS) if thorough else ["six-mixed", "empty", "ulp-pair-np"]
    for keys, payload, err in itertools.product(xkeys, payloads, ERRS if thorough else ["alternating"]):
        addx(keys, SHAPES[1], payload, err, "recipes+parts", "close")
    for keys, via, extras in itertools.product(vkeys, VIAS[1:], EXTRAS):
        if thorough or extras == "recipes+parts":
            addx(keys, SHAPES[1], "special", "alternating", extras, via)
    for shape, keys in itertools.product(NONSQUARE, ["one-float", "six-mixed"]):
        addx(keys, shape, "finite", "alternating", "none", "close")
    n_rt = len(cases)
    depth = 3 if thorough else 2
    ops = edit_alphabet()
    n_hist = 0
    for d in range(depth + 1):
        for h in itertools.product(ops, repeat=d):
            n_hist += 1
            for mode in ("single", "each"):
                if d <= 1 and mode == "each":
                    continue  # identical to the single-session history
                cases.append(dict(kind="edit", history=[list(o) for o in h], mode=mode))
    ctx.run_cases(cases, evaluate)
    ctx.rule = (
        f"part A: {'complete product' if thorough else 'complete product on the default card + all key sets on every other card'} "
        f"of {len(KEYSETS)} key sets (0-6 points; float / np.float64 / int scales, int / np.int64 nf, scales 1 ulp apart, "
        f"same scale with two nf, int+float spelling of one point, repr edge values) x {len(SHAPES)} shapes up to 14x8x14x8 x "
        f"{len(payloads)} payload classes (14 special bit patterns) x {len(ERRS)} error layouts x {len(CARDS)} card variants "
        f"= {n_base} archives; + {n_rt - n_base} archives on sub-lattices (card 0, shape {SHAPES[1]}): {len(xkeys)} key sets x "
        f"{len(payloads)} payloads x {3 if thorough else 1} error layouts with recipes + matching recipes + parts + matching parts "
        f"({len(X_RECIPES)} headers with Python / NumPy fields, both bool values; {len(X_PARTS)} of them with operators), "
        f"{len(vkeys)} key sets x {len(VIAS) - 1} other ways of finishing / re-reading ({', '.join(VIAS[1:])}) "
        f"{'x with / without extras' if thorough else 'with extras'}, {len(NONSQUARE)} non-square shapes x 2 key sets "
        "(refusal by EKO.load's documented ValueError or faithful content); every re-read archive is also asked for "
        "mu2grid / evolgrid / `in` (stored and never-stored points), the plain types of its evolution points and origin, "
        "and for its four other inventories (empty when nothing was put there); "
        f"part B: all {n_hist} histories of length <= {depth} over {len(ops)} edit operations, in one "
        "session and in one session per operation, on an archive that also holds 3 recipes and 2 parts; "
        "non-trivial = at least one operator or part stored / one non-empty operation"
    )
    ctx.extra.update(states=n_hist, transitions=len(cases) - n_rt, max_depth_completed=depth)
    ctx.assumptions += [
        "operators are float64 and square in (pid, x) as EKO.load requires; other dtypes not explored; for the two "
        "non-square shapes the documented refusal of EKO.load (ValueError 'not squared') counts as held, silent change does not",
        "a re-read evolution point / origin must consist of plain Python numbers with an int flavour number (eko.io.types: "
        "EvolutionPoint = (float, int)); int vs float of an equal scale is not distinguished",
        "recipes / parts headers are compared by class, field value and field type (bool stays bool, NumPy scalars come back plain)",
        "card values are Python numbers here (NumPy numbers inside cards are C40's subject); evolution points carry the NumPy types",
        "an evolution point is identified by (float(scale), int(nf)); int 10 and float 10.0 are the same point",
        "between lattice points nothing is claimed",
    ]
