"""C24 harmonic sums: definitions, recurrences, real-analyticity, Mellin integrals, shared cache.

Part A (numeric lattices, X-num)
  int   N = 1..60: every harmonic sum (direct call and fresh-cache lookup) against the exact rational
        nested sum of its definition, with the matching parity flag and with flag None.
  cplx  complex lattice Re N in [0.5,50] x Im N in [-60,60] PLUS the points of eko's real Talbot contour
        (t x x x offset, written out from the definition; Re N from -551 to 65, |Im N| up to 180, i.e. also
        the reflection branch of cern_polygamma): one-step recurrence S(N+1)-S(N)=term(N+1)
        (parity flag flipped for N+1), S(conj N) = conj S(N) for sums, cache slots, g- and log-functions,
        single sums and the single-sum cache slots against their mpmath continuation.
        The recurrence of the NESTED sums (fitted g-functions) is an oracle only for Re N > 0, where the
        fits are approximations of convergent Mellin integrals; left of the imaginary axis it is measured.
  gq    every g-function against mpmath quadrature of its defining Mellin integral.
  lm    every logarithmic Mellin transform against mpmath quadrature of its defining integral; at the
        contour points with Re N < 0.5 (integral divergent) against its analytic continuation
        d^k/de^k B(N,1+a+e).

Part B (history exploration of ekore.harmonics.cache, X-hist)
  state       = set of filled cache slots (values are functions of (slot, N, parity) - that is what is checked)
  transition  = one cache.get(key, cache, N, is_singlet) on a cache reached by replaying a history
  observation = returned value + complete cache array after every step, compared with direct evaluation
"""

from __future__ import annotations

import functools
import itertools

import numpy as np

from vf.core import hist
from vf.core.ctx import Result

ID = "C24"
LEVEL = "model_checking"
TECHNIQUE = (
    "breadth-first exploration of cache lookup histories against direct evaluation; exhaustive input "
    "lattices against exact rational nested sums and mpmath quadrature"
)
LEVEL_TEXT = (
    "Every lookup history over the 31 cache keys up to the stated depth is replayed on the real cache "
    "(state = set of filled slots) and every returned value and every slot filled as a side effect is "
    "compared with direct evaluation; the harmonic sums are decided on N=1..60 against exact rational "
    "sums and on a complex lattice incl. points of eko's real Talbot contour (Re N down to -551) for "
    "recurrence/conjugation and, for the single sums, against their mpmath continuation; g- and log-functions "
    "against quadrature of their defining integrals (log-functions left of Re N = 0.5 against the continued integral)."
)
LEVEL_NOTE = (
    "Between lattice points nothing is claimed. Nested sums of weight >=3 are parametrisations: 'equal' "
    "means within the accuracy eko documents/tests (<=1e-5 absolute), per-function tolerances calibrated "
    "with >=10x head-room, and only for Re N > 0 (where the fitted Mellin integrals exist); left of the "
    "imaginary axis their recurrence is measured, not demanded. History states are merged on the set of filled slots (depth-3 histories are "
    "additionally enumerated without merging in thorough). mpmath is trusted."
)
FLOOR_NONTRIVIAL = 50

# --------------------------------------------------------------------------- lattices
RE_Q = [0.5, 1.0, 2.0, 5.25, 15.5, 50.0]
IM_Q = [-60.0, -1.0, 0.0, 0.3, 13.7]
RE_T = [0.5, 1.0, 1.5, 2.0, 5.25, 14.0, 15.5, 30.0, 50.0]  # 14/15.5: cern_polygamma switches at |Re z| = 15
IM_T = [-60.0, -13.7, -1.0, 0.0, 0.3, 7.0, 60.0]

GQ_RE_Q = [0.5, 2.0, 7.3, 50.0]
GQ_IM_Q = [0.0, 13.7]
GQ_RE_T = [0.5, 1.0, 1.5, 2.0, 7.3, 14.0, 15.5, 30.0, 50.0]
GQ_IM_T = [0.0, 0.3, 1.0, 7.0, 13.7, 60.0]

# eko's Mellin inversion path (eko.mellin.Path / Talbot_path written out from the definition):
#   N(t, x, o) = o + r (theta cot(theta) + i theta),  theta = pi (2t-1),  r = 0.4*16/(0.1 - ln x),
# o = 1 for singlet-like, 0 for non-singlet-like kernels; quad integrates t over [0.5, 1 - mellin_cut] = [0.5, 0.95]
# (the lower half is obtained by conjugation).
TALBOT_T = [0.5, 0.7, 0.8, 0.9, 0.95]
TALBOT_X_Q = [1e-7, 1e-2, 0.5, 0.9]
TALBOT_X_T = [1e-7, 1e-4, 1e-2, 0.1, 0.5, 0.9, 0.999]


def talbot(t, x, o):
    import math

    r = 0.4 * 16.0 / (0.1 - math.log(x))
    theta = math.pi * (2.0 * t - 1.0)
    re = 1.0 if t == 0.5 else theta / math.tan(theta)
    return complex(o + r * re, r * theta)


def contour_cases(xs):
    out = []
    for x in xs:
        for t in TALBOT_T:
            for o in (0, 1):
                N = talbot(t, x, o)
                out.append({"kind": "cplx", "re": N.real, "im": N.imag, "contour": {"t": t, "x": x, "o": o}})
    return out


# history lattice: (N, parity flag). even/odd integer, generic complex, far point of the contour range,
# a left-half-plane contour point (x = 0.1, t = 0.9, o = 1: reflection branch of the polygammas)
HLAT = [
    (2.0, 0.0, True),
    (2.0, 0.0, None),
    (3.0, 0.0, False),
    (3.0, 0.0, None),
    (1.5, 0.5, True),
    (1.5, 0.5, False),
    (1.5, 0.5, None),
    (20.25, -31.0, True),
    (20.25, -31.0, False),
    (-8.215, 6.695, True),
    (-8.215, 6.695, False),
]

# tolerances -------------------------------------------------------------------
TOL_SIMPLE = 1e-12  # "up to rounding": relative to max(1,|S|); measured 2e-15
# nested sums are built on the fitted g-functions; absolute tolerances, measured maxima in comments
TOL_NESTED = {
    "S21": 1e-6,  # 2.6e-8
    "S2m1": 5e-6,  # 2.1e-7
    "Sm21": 2e-5,  # 2.0e-6 (7-term Pegasus fit of g3)
    "Sm2m1": 2e-6,  # 6.5e-8
    "S31": 1e-7,  # 1.1e-9
    "Sm31": 1e-5,  # 3.0e-7
    "Sm22": 1e-5,  # 6.3e-7
    "S211": 5e-6,  # 1.6e-7
    "Sm211": 1e-5,  # 3.0e-7
}
TOL_G = {  # relative to max(1,|g|); measured maxima over the thorough lattice in comments
    "g3": 2e-5,  # 1.3e-6
    "g4": 2e-6,  # 1.1e-7
    "g5": 1e-6,  # 1.9e-8
    "g6": 2e-6,  # 1.6e-7
    "g8": 2e-6,  # 1.5e-7
    "g18": 2e-6,  # 2.0e-7
    "g19": 1e-6,  # 6.9e-8
    "g21": 4e-6,  # 3.6e-7
    "g22": 1e-7,  # 3.9e-9
}
TOL_LM = 1e-11  # closed forms: rounding, relative (measured 1.3e-14 right of 0.5, 4.9e-13 on the left contour points)
TOL_VAL = 1e-12  # single sums / single-sum cache slots vs mpmath continuation, relative to max(1,|S|); measured 3.8e-14
TOL_CONJ = 1e-13
TOL_CACHE = 1e-12

LM = {  # name -> (k, a, number of S arguments)
    "lm11m1": (1, 1, 1),
    "lm12m1": (2, 1, 2),
    "lm13m1": (3, 1, 3),
    "lm14m1": (4, 1, 4),
    "lm15m1": (5, 1, 5),
    "lm11": (1, 0, 1),
    "lm12": (2, 0, 2),
    "lm13": (3, 0, 3),
    "lm14": (4, 0, 4),
    "lm15": (5, 0, 5),
    "lm11m2": (1, 2, 1),
    "lm12m2": (2, 2, 2),
    "lm13m2": (3, 2, 3),
    "lm14m2": (4, 2, 4),
}


# --------------------------------------------------------------------------- eko side: direct evaluation
def direct_sums(N, flag):
    """All 19 sums by direct calls of the public functions (no cache)."""
    from ekore import harmonics as h

    S1 = h.S1(N)
    S2 = h.S2(N)
    S3 = h.S3(N)
    S4 = h.S4(N)
    S5 = h.S5(N)
    Sm1 = h.Sm1(N, S1, h.S1((N - 1) / 2), h.S1(N / 2), flag)
    Sm2 = h.Sm2(N, S2, h.S2((N - 1) / 2), h.S2(N / 2), flag)
    Sm3 = h.Sm3(N, S3, h.S3((N - 1) / 2), h.S3(N / 2), flag)
    Sm4 = h.Sm4(N, S4, h.S4((N - 1) / 2), h.S4(N / 2), flag)
    Sm5 = h.Sm5(N, S5, h.S5((N - 1) / 2), h.S5(N / 2), flag)
    Sm31 = h.Sm31(N, S1, Sm1, Sm2, flag)
    return {
        "S1": S1,
        "S2": S2,
        "S3": S3,
        "S4": S4,
        "S5": S5,
        "Sm1": Sm1,
        "Sm2": Sm2,
        "Sm3": Sm3,
        "Sm4": Sm4,
        "Sm5": Sm5,
        "S21": h.S21(N, S1, S2),
        "S2m1": h.S2m1(N, S2, Sm1, Sm2, flag),
        "Sm21": h.Sm21(N, S1, Sm1, flag),
        "Sm2m1": h.Sm2m1(N, S1, S2, Sm2),
        "S31": h.S31(N, S1, S2, S3, S4),
        "Sm31": Sm31,
        "Sm22": h.Sm22(N, S1, S2, Sm2, Sm31, flag),
        "S211": h.S211(N, S1, S2, S3),
        "Sm211": h.Sm211(N, S1, S2, Sm1, flag),
    }


def direct_slots(N, flag):
    """Meaning of every cache slot (by name), evaluated directly."""
    from ekore import harmonics as h
    from ekore.harmonics import g_functions as gf

    d = direct_sums(N, flag)
    d.update(
        S1h=h.S1(N / 2),
        S2h=h.S2(N / 2),
        S3h=h.S3(N / 2),
        S1mh=h.S1((N - 1) / 2),
        S2mh=h.S2((N - 1) / 2),
        S3mh=h.S3((N - 1) / 2),
        S1ph=h.S1((N + 1) / 2),
        S2ph=h.S2((N + 1) / 2),
        S3ph=h.S3((N + 1) / 2),
        g3=gf.mellin_g3(N, h.S1(N)),
        S1p2=h.S1(N + 2),
        g3p2=gf.mellin_g3(N + 2, h.S1(N + 2)),
    )
    return d


SLOT_NAMES = [
    "S1", "S2", "S3", "S4", "S5", "Sm1", "Sm2", "Sm3", "Sm4", "Sm5", "S21", "S2m1", "Sm21", "Sm2m1",
    "S31", "Sm31", "Sm22", "S211", "Sm211", "S1h", "S2h", "S3h", "S1mh", "S2mh", "S3mh", "S1ph",
    "S2ph", "S3ph", "g3", "S1p2", "g3p2",
]  # fmt: skip


def slot_index():
    """name -> index, read from the module under test (a renumbering there must not matter)."""
    from ekore.harmonics import cache as c

    idx = {n: getattr(c, n) for n in SLOT_NAMES}
    return idx


def g_eko(name, N):
    from ekore import harmonics as h
    from ekore.harmonics import g_functions as gf

    S1, S2, S3 = h.S1(N), h.S2(N), h.S3(N)
    return {
        "g3": lambda: gf.mellin_g3(N, S1),
        "g4": lambda: gf.mellin_g4(N),
        "g5": lambda: gf.mellin_g5(N, S1, S2),
        "g6": lambda: gf.mellin_g6(N, S1),
        "g8": lambda: gf.mellin_g8(N, S1, S2),
        "g18": lambda: gf.mellin_g18(N, S1, S2),
        "g19": lambda: gf.mellin_g19(N, S1),
        "g21": lambda: gf.mellin_g21(N, S1, S2, S3),
        "g22": lambda: gf.mellin_g22(N, S1, S2, S3),
    }[name]()


def lm_eko(name, N):
    from ekore import harmonics as h
    from ekore.harmonics import log_functions as lf

    S = [h.S1(N), h.S2(N), h.S3(N), h.S4(N), h.S5(N)]
    return getattr(lf, name)(N, *S[: LM[name][2]])


def _c(z):
    return complex(z)


# --------------------------------------------------------------------------- part A evaluators
def _eval_int(case):
    from ekore.harmonics import cache as c
    from vf.ref import c24_sums as R

    N = int(case["N"])
    res = Result()
    idx = slot_index()
    mx_s, mx_n = 0.0, 0.0
    for flag in (N % 2 == 0, None):
        fl = "match" if flag is not None else "None"
        d = direct_sums(float(N), flag)
        via_cache = {k: c.get(idx[k], c.reset(), complex(N), flag) for k in R.SUMS}
        for k, ix in R.SUMS.items():
            ref = float(R.fr2mp(R.nested(ix, N)))
            for how, v in (("direct", d[k]), ("cache", via_cache[k])):
                v = _c(v)
                dev = abs(v - ref)
                if k in TOL_NESTED:
                    mx_n = max(mx_n, dev / TOL_NESTED[k])
                    bad = not dev <= TOL_NESTED[k]
                else:
                    dev /= max(1.0, abs(ref))
                    mx_s = max(mx_s, dev)
                    bad = not dev <= TOL_SIMPLE
                if bad:
                    res.fail(
                        f"harmonics.{k}/integer-N/{how}/flag={fl}",
                        f"N={N} is_singlet={flag}: eko={v!r} exact nested sum={ref!r} |dev|={dev:.3e}",
                    )
    res.info = {"max_int_simple_reldev": mx_s, "max_int_nested_dev_over_tol": mx_n}
    res.outcome = "int"
    return res


def _eval_cplx(case):
    from ekore.harmonics import cache as c
    from vf.ref import c24_sums as R
    import mpmath as mp

    N = complex(case["re"], case["im"])
    res = Result()
    idx = slot_index()
    mx = {"rs": 0.0, "rn": 0.0, "cj": 0.0, "val": 0.0, "im": 0.0, "left": 0.0, "slot": 0.0}
    # the fitted g-functions approximate Mellin integrals that converge for Re N > 0 only; eko documents/tests
    # their accuracy there (integer N = 1..100, 1+1j). Left of the imaginary axis the recurrence of the nested
    # sums is measured, not demanded (single sums: exact continuations, demanded everywhere).
    nested_oracle = N.real > 0
    region = "left" if N.real < 0 else "right"
    half = {"h": N / 2, "mh": (N - 1) / 2, "ph": (N + 1) / 2, "p2": N + 2}
    with mp.workdps(R.DPS):
        for flag in (True, False):
            eta = 1 if flag else -1
            a = direct_sums(N, flag)
            b = direct_sums(N + 1, not flag)
            cj = direct_sums(N.conjugate(), flag)
            for k, ix in R.SUMS.items():
                # recurrence: the index N+1 has the opposite parity
                t = _c(R.term(ix, N + 1, -eta))
                dev = abs(_c(b[k]) - _c(a[k]) - t)
                if k in TOL_NESTED and not nested_oracle:
                    mx["left"] = max(mx["left"], dev)
                    bad = False
                elif k in TOL_NESTED:
                    mx["rn"] = max(mx["rn"], dev / TOL_NESTED[k])
                    bad = not dev <= TOL_NESTED[k]
                else:
                    dev /= max(1.0, abs(a[k]))
                    mx["rs"] = max(mx["rs"], dev)
                    bad = not dev <= TOL_SIMPLE
                if bad:
                    res.fail(
                        f"harmonics.{k}/recurrence/flag={flag}",
                        f"N={N}: S(N+1)={_c(b[k])!r} S(N)={_c(a[k])!r} term(N+1)={t!r} |dev|={dev:.3e}",
                    )
                # real-analyticity
                dev = abs(_c(cj[k]) - _c(a[k]).conjugate()) / max(1.0, abs(a[k]))
                mx["cj"] = max(mx["cj"], dev)
                if not dev <= TOL_CONJ:
                    res.fail(
                        f"harmonics.{k}/conjugation/flag={flag}",
                        f"N={N}: S(conj N)={_c(cj[k])!r} conj S(N)={_c(a[k]).conjugate()!r}",
                    )
                if N.imag == 0:
                    dev = abs(_c(a[k]).imag) / max(1.0, abs(a[k]))
                    mx["im"] = max(mx["im"], dev)
                    if not dev <= TOL_CONJ:
                        res.fail(f"harmonics.{k}/real-at-real-N/flag={flag}", f"N={N}: S={_c(a[k])!r}")
                # single sums are exact continuations: distance to the independent mpmath continuation
                if len(ix) == 1:
                    ref = _c(R.S(ix[0], N) if ix[0] > 0 else R.Sm(-ix[0], N, eta))
                    dev = abs(ref - _c(a[k])) / max(1.0, abs(ref))
                    mx["val"] = max(mx["val"], dev)
                    if not dev <= TOL_VAL:
                        res.fail(
                            f"harmonics.{k}/continuation/region={region}/flag={flag}",
                            f"N={N}: eko={_c(a[k])!r} mpmath continuation={ref!r} reldev={dev:.3e}",
                        )
            # cache slots: conjugation; single-sum slots (incl. the half/shifted arguments) vs mpmath
            for name, i in idx.items():
                v = _c(c.get(i, c.reset(), N, flag))
                w = _c(c.get(i, c.reset(), N.conjugate(), flag))
                dev = abs(w - v.conjugate()) / max(1.0, abs(v))
                mx["cj"] = max(mx["cj"], dev)
                if not dev <= TOL_CONJ:
                    res.fail(f"cache.get/{name}/conjugation/flag={flag}", f"N={N}: {w!r} vs conj {v!r}")
                ref = None
                if name in R.SUMS and len(R.SUMS[name]) == 1:
                    m = R.SUMS[name][0]
                    ref = R.S(m, N) if m > 0 else R.Sm(-m, N, eta)
                elif name[0] == "S" and name[1] in "123" and name[2:] in half:
                    ref = R.S(int(name[1]), half[name[2:]])
                if ref is not None:
                    ref = _c(ref)
                    dev = abs(v - ref) / max(1.0, abs(ref))
                    mx["slot"] = max(mx["slot"], dev)
                    if not dev <= TOL_VAL:
                        res.fail(
                            f"cache.get/{name}/continuation/region={region}/flag={flag}",
                            f"N={N}: cache returned {v!r}, mpmath continuation {ref!r} reldev={dev:.3e}",
                        )
        for name in R.G_DEF:
            v, w = _c(g_eko(name, N)), _c(g_eko(name, N.conjugate()))
            dev = abs(w - v.conjugate()) / max(1.0, abs(v))
            mx["cj"] = max(mx["cj"], dev)
            if not dev <= TOL_CONJ:
                res.fail(f"g_functions.mellin_{name}/conjugation", f"N={N}: {w!r} vs conj {v!r}")
        for name in LM:
            v, w = _c(lm_eko(name, N)), _c(lm_eko(name, N.conjugate()))
            dev = abs(w - v.conjugate()) / max(1e-300, abs(v))
            mx["cj"] = max(mx["cj"], dev)
            if not dev <= TOL_CONJ:
                res.fail(f"log_functions.{name}/conjugation", f"N={N}: {w!r} vs conj {v!r}")
    res.info = {
        "max_recurrence_simple_reldev": mx["rs"],
        "max_recurrence_nested_dev_over_tol": mx["rn"],
        "max_conjugation_reldev": mx["cj"],
        "max_imag_at_real_N": mx["im"],
        "max_simple_vs_mpmath_continuation_reldev": mx["val"],
        "max_single_sum_cache_slot_vs_mpmath_reldev": mx["slot"],
    }
    if not nested_oracle:
        res.info["max_nested_recurrence_dev_left_of_imaginary_axis_info_only"] = mx["left"]
    res.outcome = ("cplx-real" if N.imag == 0 else "cplx") + ("" if nested_oracle else "-left")
    return res


def _eval_gq(case):
    from vf.ref import c24_sums as R

    N = complex(case["re"], case["im"])
    name = case["fn"]
    res = Result()
    v = _c(g_eko(name, N))
    ref = _c(R.g_integral(name, N, dps=18))
    dev = abs(v - ref) / max(1.0, abs(ref))
    if not dev <= TOL_G[name]:
        res.fail(
            f"g_functions.mellin_{name}/defining-integral",
            f"N={N}: eko={v!r} quadrature of int x^(N-1+{R.G_DEF[name][1]}) f(x)={ref!r} dev={dev:.3e}",
        )
    res.info = {f"max_{name}_dev_over_tol": dev / TOL_G[name], f"max_{name}_dev": dev}
    res.outcome = "gq"
    return res


def _eval_lm(case):
    from vf.ref import c24_sums as R

    N = complex(case["re"], case["im"])
    name = case["fn"]
    k, a, _n = LM[name]
    res = Result()
    v = _c(lm_eko(name, N))
    if case.get("continued"):
        # Re N < 0.5: the integral diverges (or barely converges); the closed forms are analytic in N and must equal the
        # continuation of the integral, d^k/de^k B(N, 1+a+e) at e = 0 (two working precisions must agree)
        ref = R.log_beta(k, a, N)
        ref2 = R.log_beta(k, a, N, dps=R.DPS + 15)
        q = float(abs(ref - ref2) / abs(ref2))
        if q > 1e-20:
            raise RuntimeError(f"reference derivative of the Beta function not stable for {name} at N={N}: {ref} vs {ref2}")
        dev = abs(v - _c(ref)) / abs(_c(ref))
        if not dev <= TOL_LM:
            res.fail(
                f"log_functions.{name}/continued-integral",
                f"N={N}: eko={v!r} d^{k}/de^{k} B(N,{1 + a}+e)={_c(ref)!r} reldev={dev:.3e}",
            )
        res.info = {"max_lm_continued_reldev": dev, "max_lm_continued_reference_selfcheck": q}
        res.outcome = "lm-continued"
        return res
    ref = R.log_integral(k, a, N)
    # harness self-check: the quadrature must reproduce the Beta-function derivative d^k/de^k B(N,1+a+e)
    ref2 = R.log_beta(k, a, N)
    q = float(abs(ref - ref2) / abs(ref2))
    if q > 1e-14:
        raise RuntimeError(f"reference quadrature not converged for {name} at N={N}: {ref} vs {ref2}")
    dev = abs(v - _c(ref)) / abs(_c(ref))
    if not dev <= TOL_LM:
        res.fail(
            f"log_functions.{name}/defining-integral",
            f"N={N}: eko={v!r} quadrature of int x^(N-1)(1-x)^{a} ln^{k}(1-x)={_c(ref)!r} reldev={dev:.3e}",
        )
    res.info = {"max_lm_reldev": dev, "max_lm_reference_selfcheck": q}
    res.outcome = "lm"
    return res


# --------------------------------------------------------------------------- part B: cache histories
@functools.lru_cache(maxsize=None)
def _direct_table(re, im, flag):
    N = complex(re, im)
    idx = slot_index()
    d = direct_slots(N, flag)
    tab = np.full(len(idx), np.nan, np.complex128)
    for name, i in idx.items():
        tab[i] = d[name]
    return tab


def _replay(history, re, im, flag, res, sigbase):
    """Replay a lookup history on a fresh cache, checking every observation. Returns filled set."""
    from ekore.harmonics import cache as c

    N = complex(re, im)
    tab = _direct_table(re, im, flag)
    names = {i: n for n, i in slot_index().items()}
    ca = c.reset()
    if ca.shape != (len(names),) or not np.all(np.isnan(ca)):
        res.fail("cache.reset/not-empty", f"reset() -> {ca!r}")
    stats = {"hits": 0, "side": 0, "mx": 0.0}
    for step, key in enumerate(history):
        before = ca.copy()
        was_filled = not np.isnan(before[key])
        try:
            v = c.get(key, ca, N, flag)
        except Exception as e:  # noqa
            res.fail(f"{sigbase}/key={names[key]}/raises", f"{type(e).__name__}: {e} history={history} N={N} flag={flag}")
            return None, stats
        where = f"history={[names[k] for k in history]} step={step} N={N} is_singlet={flag}"
        # returned value = direct evaluation
        dev = abs(v - tab[key]) / max(1.0, abs(tab[key]))
        stats["mx"] = max(stats["mx"], dev)
        if not dev <= TOL_CACHE:
            res.fail(
                f"{sigbase}/key={names[key]}/returned-value" + ("/hit" if was_filled else "/miss"),
                f"{where}: got {v!r} direct {tab[key]!r}",
            )
        # the slot now holds exactly what was returned
        if not (ca[key] == v):
            res.fail(f"{sigbase}/key={names[key]}/slot-not-stored", f"{where}: returned {v!r} stored {ca[key]!r}")
        if was_filled:
            stats["hits"] += 1
            if not (before[key] == v):
                res.fail(f"{sigbase}/key={names[key]}/hit-changes-value", f"{where}: {before[key]!r} -> {v!r}")
        for i in range(len(ca)):
            if np.isnan(before[i]):
                if not np.isnan(ca[i]) and i != key:
                    stats["side"] += 1
                    d = abs(ca[i] - tab[i]) / max(1.0, abs(tab[i]))
                    stats["mx"] = max(stats["mx"], d)
                    if not d <= TOL_CACHE:
                        res.fail(
                            f"{sigbase}/key={names[key]}/side-effect-slot={names[i]}",
                            f"{where}: slot {names[i]} filled with {ca[i]!r}, direct evaluation {tab[i]!r}",
                        )
            elif not (ca[i] == before[i]):
                res.fail(
                    f"{sigbase}/key={names[key]}/overwrites-slot={names[i]}",
                    f"{where}: slot {names[i]} {before[i]!r} -> {ca[i]!r}",
                )
    filled = tuple(int(i) for i in range(len(ca)) if not np.isnan(ca[i]))
    return filled, stats


def _eval_hist(case):
    history = list(case["history"]) + ([case["op"]] if case.get("op") is not None else [])
    res = Result()
    states = set()
    hits = side = 0
    mx = 0.0
    for re, im, flag in HLAT:
        filled, st = _replay(history, re, im, flag, res, "cache.get")
        hits += st["hits"]
        side += st["side"]
        mx = max(mx, st["mx"])
        if filled is not None:
            states.add(filled)
    if len(states) > 1:
        res.fail("cache.get/fill-pattern-depends-on-N-or-parity", f"history={history}: {sorted(states)}")
    state = sorted(states)[0] if states else ()
    res.info = {
        "state": ",".join(map(str, state)),
        "max_cache_reldev": mx,
        "hits": hits,
        "side_effect_fills": side,
        "lookups": len(history) * len(HLAT),
    }
    res.nontrivial = hits > 0 or side > 0
    res.outcome = f"hist/len={len(history)}/hit={hits > 0}/side={side > 0}"
    return res


def evaluate(case):
    kind = case.get("kind", "hist")
    return {"int": _eval_int, "cplx": _eval_cplx, "gq": _eval_gq, "lm": _eval_lm, "hist": _eval_hist}[kind](case)


# --------------------------------------------------------------------------- driver
def run(ctx):
    th = ctx.thorough()
    RE, IM = (RE_T, IM_T) if th else (RE_Q, IM_Q)
    GRE, GIM = (GQ_RE_T, GQ_IM_T) if th else (GQ_RE_Q, GQ_IM_Q)
    from vf.ref import c24_sums as R

    cases = [{"kind": "int", "N": n} for n in range(1, 61)]
    cases += [{"kind": "cplx", "re": r, "im": i} for r in RE for i in IM]
    contour = contour_cases(TALBOT_X_T if th else TALBOT_X_Q)
    cases += contour
    cases += [{"kind": "gq", "fn": f, "re": r, "im": i} for f in R.G_DEF for r in GRE for i in GIM]
    cases += [{"kind": "lm", "fn": f, "re": r, "im": i} for f in LM for r in GRE for i in GIM]
    left = [cc for cc in contour if cc["re"] < 0.5]
    cases += [
        {"kind": "lm", "fn": f, "re": cc["re"], "im": cc["im"], "continued": True, "contour": cc["contour"]}
        for f in LM
        for cc in left
    ]
    n_left_nested = sum(1 for cc in contour if not cc["re"] > 0)
    n_num = len(cases)
    ctx.run_cases(cases, evaluate, chunksize=1)

    # ---- cache histories
    from ekore.harmonics import cache as c

    nkeys = int(c.CACHE_SIZE)
    idx = slot_index()
    if sorted(idx.values()) != list(range(nkeys)):
        from vf.core.ctx import HarnessError

        raise HarnessError(f"cache layout changed: {idx}")
    alphabet = list(range(nkeys))
    depth = 4 if th else 3
    seen = hist.bfs(ctx, alphabet, evaluate, depth, init_key="", extra_case={"kind": "hist"})
    n_plain = 0
    if th:
        # complete depth-3 enumeration WITHOUT state merging (validates the merge on what it can reach)
        plain = [
            {"kind": "hist", "history": list(h), "op": None}
            for h in itertools.product(alphabet, repeat=3)
        ]
        n_plain = len(plain)
        ctx.run_cases(plain, evaluate)
        ctx.extra["traces_validated_against_impl"] += n_plain
        ctx.extra["unmerged_histories_depth3"] = n_plain
    ctx.extra["history_lattice_points"] = len(HLAT)
    ctx.extra["distinct_fill_states"] = len(seen)
    ctx.rule = (
        f"numeric part: N=1..60 x (matching parity, None) x 19 sums x (direct, fresh cache); complex lattice "
        f"{len(RE)}x{len(IM)} (Re N in [0.5,50] incl. both sides of cern_polygamma's |Re z|=15 switch, Im N in "
        f"[-60,60] incl. 0) plus {len(contour)} points of eko's Talbot contour N(t,x,o), t in {TALBOT_T} x x in "
        f"{TALBOT_X_T if th else TALBOT_X_Q} x offset 0/1 (Re N from {min(cc['re'] for cc in contour):.0f} to "
        f"{max(cc['re'] for cc in contour):.0f}, |Im N| up to {max(cc['im'] for cc in contour):.0f}; "
        f"{sum(1 for cc in contour if cc['re'] < 0)} of them with Re N < 0 = reflection branch of cern_polygamma), each x 2 parities "
        f"x 19 sums for recurrence and conjugation (recurrence of the 9 nested sums demanded for Re N > 0, measured only at the "
        f"{n_left_nested} contour points left of the imaginary axis), the 10 single sums and the 20 single-sum cache slots "
        f"(incl. half and shifted arguments) against their mpmath continuation, plus conjugation of all 31 "
        f"cache slots, 9 g-functions, 14 log-functions; 9 g-functions x {len(GRE)}x{len(GIM)} and 14 log-functions x "
        f"{len(GRE)}x{len(GIM)} points against quadrature, 14 log-functions x {len(left)} contour points with Re N < 0.5 "
        f"against the continued integral d^k/de^k B(N,1+a+e) ({n_num} numeric cases). history part: breadth-first over "
        f"lookup histories of the 31 keys to depth {depth} (every key applied to every distinct state = set of "
        f"filled slots; at depth 2 that is all 31^2 ordered pairs), each replayed on a fresh cache at "
        f"{len(HLAT)} (N, parity) points; every returned value, every newly filled slot, every untouched slot "
        f"compared with direct evaluation"
        + (f"; plus all {n_plain} depth-3 histories without merging" if th else "")
        + ". non-trivial history = at least one cache hit or side-effect fill occurred"
    )
    ctx.assumptions += [
        "alternating sums are continued with an explicit parity flag (True/False); flag None is only exercised "
        "at integer N and at small |Im N| in the cache histories, because (-1)**N is not real-analytic",
        "recurrence for alternating sums relates S^{eta}(N) to S^{-eta}(N+1) (the index N+1 has opposite parity)",
        "nested sums (weight>=3 with the fitted g-functions) are required to hold within per-function absolute "
        "tolerances 1e-7..2e-5 (eko's own tests use 1e-5/1e-6); single sums within 1e-12 relative",
        "accuracy classes: single sums, their cache slots and the log-functions are exact continuations (polygamma / "
        "closed forms) and are demanded at every lattice point incl. the whole Talbot contour; the nested sums rest on "
        "minimax fits of x-space functions on [0,1] (sums of a_k/(N+k)), which approximate the Mellin integrals where "
        "these converge (Re N > 0) - that is where eko documents and tests them (integer N = 1..100, 1+1j) and where the "
        "quantifier puts the lattice. Left of the imaginary axis no accuracy is documented: there the recurrence of the "
        "nested sums is measured (evidence key max_nested_recurrence_dev_left_of_imaginary_axis_info_only: up to ~1.5e-2 "
        "at x=1e-2, t=0.95, where the inversion weight |x^-N| is 1e-27 of its peak; <= 5e-6 wherever the weight is >= 1e-5) "
        "and only conjugation symmetry is demanded",
        "Talbot contour written out from eko.mellin's definition (r = 6.4/(0.1 - ln x), o = 0/1, t in [0.5, 0.95]); a change of "
        "the path in eko does not move these lattice points",
        "g-functions: mellin_g3 transforms with x^(N-1), all others with x^N (Bluemlein's convention), as fixed "
        "by the nested sums they build at integer N",
        "cache states are merged on the set of filled slots; slot values are functions of (slot,N,parity) up to "
        "rounding, which is what every step verifies",
        "the cache is only driven with one parity flag per history (the statement's 'consistent parity flag')",
        "lattice decides the property on the lattice only",
    ]
