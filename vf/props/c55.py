"""C55 settings that do not apply to a configuration do not change its EKO (X-conf, S2 + S3).

Pairs (triples) of solves through the real runner that differ in exactly one setting which the
documentation ties to other configurations; the resulting operators must be bit-identical.
Bitwise comparison is meaningful at the moment-probe seam because both runs execute the same
floating-point operations; a few un-stubbed 3-point-grid solves tie the seam to the full path.
"""

import numpy as np

from vf.core import cards, probe
from vf.core.ctx import Result

ID = "C55"
LEVEL = "exploration"
TECHNIQUE = "exhaustive enumeration of (configuration, irrelevant setting, values) through the real runner; bitwise comparison"
LEVEL_TEXT = (
    "for every (order, path shape, method) in the product and every setting documented as not applying to it, the solve is repeated "
    "for each value of that setting and all operators must be bit-identical"
)
LEVEL_NOTE = "settings and values limited to the listed ones; moment-probe seam for the bulk, real quadrature on 3-point grids for a subset; interpreted mode"
FLOOR_NONTRIVIAL = 50

M = [2.0, 4.5, 100.0]
SHAPES = {
    "fixed": ([3.0, 4], [4.0, 4]),
    "up": ([1.5, 3], [3.0, 4]),
    "down": ([10.0, 5], [3.0, 4]),
    "fixed3": ([1.3, 3], [1.8, 3]),
    "up2": ([1.5, 3], [10.0, 5]),
    # backward evolution inside one patch: no matching at all, hence no downward matching
    "fixed-down": ([4.0, 4], [3.0, 4]),
}
NON_ITERATING = ["truncated", "ordered-truncated", "decompose-exact", "decompose-expanded"]
NON_PERTURBATIVE = ["iterate-exact", "iterate-expanded", "truncated", "ordered-truncated", "decompose-exact", "decompose-expanded"]
# couplings: "exact" ODE solution for *-exact methods, expanded formulas for all the others: the em-running flag selects a
# different function in each of the two families
EM_METHODS = ["iterate-exact", "truncated", "iterate-expanded"]
# at LO the documented solution is the exact one for every method: nothing iterates, nothing is expanded
LO_ITERATIONS = ["iterate-exact", "iterate-expanded", "perturbative-exact", "perturbative-expanded"]
LO_MAX_ORDER = ["perturbative-exact", "perturbative-expanded"]
SETTINGS = {
    "iterations": ("iterations", [1, 7, 30]),
    "max_order": ("max_order", [[10, 0], [3, 0], [1, 0], [10, 5]]),
    "inversion": ("inversion", [None, "exact", "expanded"]),
    "n3lo_var": ("n3lo_ad_variation", [[0, 0, 0, 0, 0, 0, 0], [1, 2, 3, 1, 2, 3, 1]]),
    "fhmruvv": ("use_fhmruvv", [True, False]),
    "em_running": ("em_running", [False, True]),
}
# N = 2 exactly is avoided: the O(a_s^3) matching elements are 0/0 there (known finding, C26)
MOMENTS = [2.3, 3.3]


def _cfg(case, value):
    init, target = SHAPES[case["shape"]]
    c = dict(
        order=[case["qcd"], 0],
        method=case["method"],
        masses=M,
        init=list(init),
        mugrid=[list(target)],
        iterations=3,
        max_order=[4, 0],
        inversion="expanded",
    )
    c.update(case.get("extra", {}))
    c[SETTINGS[case["setting"]][0]] = value
    return c


def evaluate(case):
    res = Result()
    key, values = SETTINGS[case["setting"]]
    outs = []
    errs = []  # S3 only: the error tensors
    order = case.get("extra", {}).get("order", [case["qcd"], 0])
    qed = f",qed={order[1]}" if order[1] else ""
    where = f"{ {k: case[k] for k in ('qcd', 'shape', 'method', 'setting', 'seam')} }" + (f" extra={case['extra']}" if case.get("extra") else "")
    for v in values:
        cfg = _cfg(case, v)
        try:
            if case["seam"] == "s2":
                out = probe.moment_solve(cfg, MOMENTS)
                outs.append({ep: m for ep, m in out.items()})
            else:
                ops = cards.solve_ops(dict(cfg, xgrid=[0.2, 0.6, 1.0], degree=1), tag="c55")
                outs.append({ep: o for ep, (o, e) in ops.items()})
                errs.append({ep: e for ep, (o, e) in ops.items()})
        except (NotImplementedError, ValueError) as e:
            outs.append(("refused", str(e)[:60]))
            errs.append(None)
        except Exception as e:  # noqa
            res.fail(f"solve/crash/{type(e).__name__}/{case['setting']}", f"{where} value={v}: {type(e).__name__}: {str(e)[:200]}")
            return res
    ref = outs[0]
    worst = 0.0
    for iv, (v, o) in enumerate(zip(values[1:], outs[1:]), start=1):
        if isinstance(ref, tuple) or isinstance(o, tuple):
            if isinstance(ref, tuple) != isinstance(o, tuple):
                res.fail(f"solve/{case['setting']}/refusal-depends-on-setting/{case['method']}", f"{where}: value {values[0]} -> {ref if isinstance(ref, tuple) else 'ok'}, value {v} -> {o if isinstance(o, tuple) else 'ok'}")
            continue
        if sorted(ref) != sorted(o):
            res.fail(f"solve/{case['setting']}/points", f"{where}: evolution points differ")
            continue
        for ep in ref:
            if ref[ep].tobytes() != o[ep].tobytes():
                d = float(np.abs(ref[ep] - o[ep]).max())
                worst = max(worst, d)
                res.fail(
                    f"solve/{case['setting']}/qcd={case['qcd']}{qed},method={case['method']},shape={case['shape'].rstrip('23')}",
                    f"{where}: operator at {ep} changes with {key}: {values[0]} vs {v} (max abs diff {d:.3e})",
                )
            if errs and errs[0] is not None and errs[iv] is not None:
                e0, e1 = errs[0][ep], errs[iv][ep]
                if (e0 is None) != (e1 is None) or (e0 is not None and e0.tobytes() != e1.tobytes()):
                    res.fail(
                        f"solve/{case['setting']}/error-tensor/qcd={case['qcd']}{qed},method={case['method']},shape={case['shape'].rstrip('23')}",
                        f"{where}: error tensor at {ep} changes with {key}: {values[0]} vs {v}",
                    )
    res.info = {"max_diff": worst}
    if isinstance(ref, tuple):
        res.outcome = "refused"
        res.nontrivial = False
    else:
        res.outcome = f"{case['setting']}:identical" if not res.fails else f"{case['setting']}:differs"
    return res


def run(ctx):
    cases = []
    shapes = ["fixed", "up", "down"] + (["fixed3", "up2"] if ctx.thorough() else [])
    orders = (1, 2, 3, 4)
    for qcd in orders:
        for shape in shapes:
            if qcd == 4 and shape not in ("fixed", "fixed3") and not ctx.thorough():
                continue  # N3LO matching is slow in interpreted mode: thorough only
            for m in NON_ITERATING:
                cases.append(dict(seam="s2", qcd=qcd, shape=shape, method=m, setting="iterations"))
            for m in NON_PERTURBATIVE:
                cases.append(dict(seam="s2", qcd=qcd, shape=shape, method=m, setting="max_order"))
            if shape in ("fixed", "up", "fixed3", "up2"):
                for m in ("truncated", "iterate-exact"):
                    cases.append(dict(seam="s2", qcd=qcd, shape=shape, method=m, setting="inversion"))
            if qcd <= 3:
                for m in ("truncated", "iterate-exact"):
                    cases.append(dict(seam="s2", qcd=qcd, shape=shape, method=m, setting="n3lo_var"))
                    cases.append(dict(seam="s2", qcd=qcd, shape=shape, method=m, setting="fhmruvv"))
            for m in EM_METHODS:
                cases.append(dict(seam="s2", qcd=qcd, shape=shape, method=m, setting="em_running"))
            if qcd == 1:
                for m in LO_ITERATIONS:
                    cases.append(dict(seam="s2", qcd=qcd, shape=shape, method=m, setting="iterations"))
                for m in LO_MAX_ORDER:
                    cases.append(dict(seam="s2", qcd=qcd, shape=shape, method=m, setting="max_order"))
        # backward evolution without any matching: the inversion method has nothing to act on
        for m in ("truncated", "iterate-exact"):
            cases.append(dict(seam="s2", qcd=qcd, shape="fixed-down", method=m, setting="inversion"))
    # QED on (only iterate-exact exists): expansion order, inversion without downward matching, N3LO choices below N3LO
    for o in [[1, 1], [2, 1]] + ([[3, 1], [2, 2]] if ctx.thorough() else []):
        for shape in ("fixed", "up") + (("down",) if ctx.thorough() else ()):
            for setting in ("max_order", "inversion", "n3lo_var", "fhmruvv"):
                if setting == "inversion" and shape == "down":
                    continue
                cases.append(dict(seam="s2", qcd=o[0], shape=shape, method="iterate-exact", setting=setting, extra=dict(order=o)))
    # scale variations on
    for setting, m, sv, xif, shape in (
        ("iterations", "truncated", "expanded", 2.0, "up"),
        ("iterations", "decompose-exact", "exponentiated", 0.5, "down"),
        ("max_order", "iterate-exact", "expanded", 0.5, "down"),
        ("inversion", "truncated", "exponentiated", 2.0, "up"),
        ("em_running", "truncated", "exponentiated", 2.0, "up"),
        ("n3lo_var", "iterate-exact", "expanded", 2.0, "fixed"),
    ):
        cases.append(dict(seam="s2", qcd=2, shape=shape, method=m, setting=setting, extra=dict(sv=sv, xif=xif)))
    if ctx.thorough():
        # N3LO matching below N3LO evolution: the N3LO choices concern the anomalous dimensions only
        for setting in ("n3lo_var", "fhmruvv"):
            cases.append(dict(seam="s2", qcd=3, shape="up", method="truncated", setting=setting, extra=dict(matching_order=[3, 0])))
    # polarised / time-like spot product
    for kind in (dict(polarized=True), dict(time_like=True)):
        for qcd in (1, 2, 3):
            for setting, m in (("iterations", "truncated"), ("max_order", "iterate-exact"), ("inversion", "truncated"), ("n3lo_var", "truncated"), ("em_running", "iterate-exact"), ("em_running", "truncated")):
                cases.append(dict(seam="s2", qcd=qcd, shape="up", method=m, setting=setting, extra=kind))
    # un-stubbed
    for qcd, shape, m, setting in (
        (1, "fixed", "truncated", "iterations"),
        (2, "up", "decompose-exact", "iterations"),
        (2, "fixed", "iterate-exact", "max_order"),
        (2, "up", "truncated", "inversion"),
        (2, "fixed", "truncated", "n3lo_var"),
        (1, "fixed", "iterate-exact", "em_running"),
        (2, "up", "truncated", "em_running"),
    ):
        cases.append(dict(seam="s3", qcd=qcd, shape=shape, method=m, setting=setting))
    ctx.run_cases(cases, evaluate, chunksize=1)
    ctx.rule = (
        f"QCD order 1-4 x path shapes {shapes} x (iterations in 1/7/30 for the 4 non-iterating methods; expansion order in "
        "(10,0)/(3,0)/(1,0)/(10,5) for the 6 non-perturbative methods; inversion None/exact/expanded on fixed and upward paths; N3LO variation "
        "and parametrisation below N3LO; em-running flag without QED for iterate-exact (exact couplings) and truncated/iterate-expanded "
        "(expanded couplings)); at LO also iterations for the iterate-*/perturbative-* and expansion order for the perturbative-* methods; "
        "inversion on a backward path without matching; QED on (iterate-exact, orders "
        + ("(1,1) (2,1) (3,1) (2,2)" if ctx.thorough() else "(1,1) (2,1)")
        + ": expansion order, inversion on fixed/upward paths, N3LO choices); 6 spot cases with scale variations on"
        + ("; N3LO matching under NNLO evolution" if ctx.thorough() else "")
        + " + polarised/time-like spot product + 7 un-stubbed solves (operators and error tensors); "
        "a case = one configuration with all values of one setting; non-trivial = solved"
    )
    ctx.assumptions += [
        "which settings are irrelevant where is taken from the property text (documentation of the operator card)",
        "LO: every method is read as non-iterating and non-perturbative (docs: the LO solution is the exact one; methods are defined from NLO on)",
    ]
