"""C44 products of EKOs compose in evolution order (X-num over synthetic archives).

Two real archives are written (initial: mu0 -> {mu1, optional other point}; final: starting at
mu1' -> 1-3 targets), `ekobox.utils.ekos_product` is called in place or into a new archive, and every
operator of the result is compared with the reference contraction later . earlier and with the
first-order error rule of the statement.
"""

import shutil

import numpy as np

from vf.core import cards
from vf.core.ctx import Result
from vf.ref import c44_tensors as T

ID = "C44"
LEVEL = "exploration"
TECHNIQUE = "complete product of operator families x error presence x target sets x initial-point offsets x write mode, vs tensordot reference"
LEVEL_TEXT = (
    "for every lattice point two real archives with deterministic, mutually non-commuting, mixed-sign "
    "operator tensors are combined by the real ekos_product (in place / to a new archive) and every "
    "operator read back from the result is compared element-wise with later.earlier and "
    "|later|.|d earlier| + |d later|.|earlier| computed by an independent tensordot"
)
LEVEL_NOTE = (
    "decides the property on the lattice only (5 tensor families, 2-3 point grids, offsets of the initial "
    "point at 0, +-0.5, 0.9, 1.1, 2 times the tolerance, caller-given rtol/atol, twin initial points); trusted: "
    "numpy.tensordot, the archive reader"
)
FLOOR_NONTRIVIAL = 20

MU1 = (36.0, 5)  # the point shared by the two EKOs
OTHER = (25.0, 4)  # a second operator of the initial EKO that must not be touched / not be used
MU0 = (2.0, 4)
TARGET_SETS = {
    "t1": [(49.0, 5)],
    "t2": [(64.0, 5), (49.0, 5)],
    "t3": [(49.0, 5), (64.0, 5), (81.0, 6)],
    "tov": [(36.0, 5), (49.0, 5)],  # the final EKO also lists its own starting point, present in the initial one
    # a target of the final EKO (evolving back) coincides with ANOTHER operator of the initial EKO
    "tother": [(25.0, 4), (49.0, 5)],
}
# a second point of the initial EKO inside the default tolerance (relative distance 4e-7) of the joining point
TWIN = (6.0000012 * 6.0000012, 5)
LAYOUTS = {
    "single": [MU1],
    "other-first": [OTHER, MU1],
    "other-last": [MU1, OTHER],
    "twin-first": [TWIN, MU1],
    "twin-last": [MU1, TWIN],
}
# offset of the final EKO's starting mu^2 relative to the key of the initial one, and tolerances passed
MATCH = {
    "exact": dict(delta=0.0, nf=5, kw={}, ok=True),
    "in+": dict(delta=5e-7, nf=5, kw={}, ok=True),
    "in-": dict(delta=-5e-7, nf=5, kw={}, ok=True),
    "edge-in": dict(delta=0.9e-6, nf=5, kw={}, ok=True),
    "rtol-wide-in": dict(delta=5e-4, nf=5, kw=dict(rtol=1e-3), ok=True),
    # absolute tolerance given by the caller (the pair in place / new archive shows whether it is forwarded)
    "atol-wide-in": dict(delta=5e-4, nf=5, kw=dict(atol=0.05), ok=True),
    "atol-zero-out": dict(delta=1e-12, nf=5, kw=dict(rtol=0.0, atol=0.0), ok=False),
    # tolerance tight enough to tell the twin points apart
    "rtol-1e-8": dict(delta=0.0, nf=5, kw=dict(rtol=1e-8), ok=True),
    "edge-out": dict(delta=1.1e-6, nf=5, kw={}, ok=False),
    "out": dict(delta=2e-6, nf=5, kw={}, ok=False),
    "out-": dict(delta=-2e-6, nf=5, kw={}, ok=False),
    "rtol-tight-out": dict(delta=5e-7, nf=5, kw=dict(rtol=1e-9), ok=False),
    "far": dict(delta=0.36, nf=5, kw={}, ok=False),
    "nf": dict(delta=0.0, nf=4, kw={}, ok=False),
}
ERRS = ["both", "none", "ini-only", "fin-only", "fin-mixed", "fin-mixed-rev"]  # mixed: only every other target of the final EKO carries an error
# stored error tensors are not sign definite (eko.member builds the flavour-basis error with signed weights): the rule
# of the statement is in absolute values, so the same error presences also with entries of both signs
ERRS_SIGNED = ["both-signed", "fin-mixed-signed"]
RT = 1e-13  # rounding allowance relative to |later|.|earlier| (a 42-term dot product needs < 1e-14)


def _error(kind, nx, seed, signed):
    e = T.error(kind, nx, seed)
    if signed:  # a sign pattern without structure in the (flavour, x) pairs; magnitudes unchanged
        n = T.NP * nx
        i = np.arange(n)[:, None].astype(float)
        j = np.arange(n)[None, :].astype(float)
        sign = np.where(np.cos(1.3 * i + 0.7 * j + 0.4 * i * j + seed) >= 0.0, 1.0, -1.0)
        e = e * sign.reshape(e.shape)
    return e


def _ops(case):
    nx = case["nx"]
    signed = case["err"].endswith("-signed")
    errk = case["err"][: -len("-signed")] if signed else case["err"]
    e_has = errk in ("both", "ini-only", "fin-mixed", "fin-mixed-rev")
    l_has = errk in ("both", "fin-only")
    ini = {}
    for k, ep in enumerate(LAYOUTS[case["layout"]]):
        kind = case["ekind"] if ep == MU1 else "dense"
        seed = 0 if ep == MU1 else 11
        ini[ep] = (T.tensor(kind, nx, seed), _error(kind, nx, seed, signed) if e_has else None)
    fin = {}
    for k, ep in enumerate(TARGET_SETS[case["targets"]]):
        seed = 3 + int(ep[0]) % 7
        has = l_has or (errk == "fin-mixed" and k % 2 == 0) or (errk == "fin-mixed-rev" and k % 2 == 1)
        fin[ep] = (T.tensor(case["lkind"], nx, seed), _error(case["lkind"], nx, seed, signed) if has else None)
    return ini, fin


def _same(a, b):
    if (a[1] is None) != (b[1] is None):
        return False
    if a[0].tobytes() != b[0].tobytes():
        return False
    return a[1] is None or a[1].tobytes() == b[1].tobytes()


def evaluate(case):
    from eko.io.struct import EKO
    from ekobox import utils

    res = Result()
    m = MATCH[case["match"]]
    nx = case["nx"]
    xgrid = [0.5, 1.0] if nx == 2 else [0.1, 0.5, 1.0]
    ini_ops, fin_ops = _ops(case)
    d = cards.scratch_path("c44").with_suffix("")
    d.mkdir(parents=True, exist_ok=True)
    p_ini, p_fin, p_new = d / "ini.tar", d / "fin.tar", d / "new.tar"
    where = f"case={case}"
    try:
        T.make_archive(p_ini, MU0, LAYOUTS[case["layout"]], ini_ops, xgrid)
        fin_mu = (MU1[0] * (1.0 + m["delta"])) ** 0.5
        T.make_archive(p_fin, (fin_mu, m["nf"]), TARGET_SETS[case["targets"]], fin_ops, xgrid)
        raised = None
        live = None
        try:
            if case["mode"] == "inplace":
                with EKO.edit(p_ini) as ei, EKO.read(p_fin) as ef:
                    utils.ekos_product(ei, ef, **m["kw"])
                    live = {
                        (float(ep[0]), int(ep[1])): (o.operator.copy(), None if o.error is None else o.error.copy())
                        for ep, o in ei.items()
                    }
                p_res = p_ini
            else:
                with EKO.read(p_ini) as ei, EKO.read(p_fin) as ef:
                    utils.ekos_product(ei, ef, path=p_new, **m["kw"])
                p_res = p_new
        except Exception as exc:  # noqa
            raised = exc
        # two points of the initial EKO inside the tolerance: refusing is legitimate (the docstring of EKO.approx
        # announces it), and so is composing with the operator stored at the exactly matching point
        ambiguous = m["ok"] and case["layout"].startswith("twin") and case["match"] != "rtol-1e-8"
        if not m["ok"] or (ambiguous and raised is not None):
            # initial points do not match: the product must be refused and nothing produced
            res.outcome = ("refused-ambiguous" if ambiguous else "refused") if raised is not None else "accepted-mismatch"
            if raised is None:
                res.fail(
                    f"ekos_product/mismatch-accepted/match={case['match']}",
                    f"{where}: final EKO starts at mu2={fin_mu**2!r}, nf={m['nf']}; initial EKO has {sorted(ini_ops)}; no error raised",
                )
            if case["mode"] == "copy" and p_new.exists():
                res.fail(f"ekos_product/refused-but-written/match={case['match']}", f"{where}: {p_new.name} exists after refusal")
            _, now = T.read_archive(p_ini)
            if sorted(now) != sorted(ini_ops) or any(not _same(now[k], ini_ops[k]) for k in ini_ops):
                res.fail(f"ekos_product/refused-but-modified/match={case['match']}", f"{where}: initial archive changed: {sorted(now)}")
            res.nontrivial = raised is not None
            return res
        if raised is not None:
            res.outcome = f"raises:{type(raised).__name__}"
            res.fail(
                f"ekos_product/raises/match={case['match']}",
                f"{where}: {type(raised).__name__}: {str(raised)[:300]}",
            )
            return res
        try:
            mu20, got = T.read_archive(p_res)
        except Exception as exc:  # noqa
            res.outcome = "no-archive"
            res.fail("ekos_product/no-archive", f"{where}: the result {p_res.name} cannot be read: {type(exc).__name__}: {str(exc)[:200]}")
            return res
        views = [("archive", got)]
        if live is not None and (sorted(live) != sorted(got) or any(not _same(live[k], got[k]) for k in got)):
            res.fail("ekos_product/live-vs-archive", f"{where}: content of the open object differs from the re-read archive")
        if abs(mu20 - MU0[0] ** 2) > 1e-12:
            res.fail("ekos_product/init-scale", f"{where}: product starts at mu2={mu20}, expected {MU0[0]**2}")
        if case["mode"] == "copy":
            _, still = T.read_archive(p_ini)
            if sorted(still) != sorted(ini_ops) or any(not _same(still[k], ini_ops[k]) for k in ini_ops):
                res.fail("ekos_product/copy-modified-initial", f"{where}: initial archive changed by the copying product")
        E, dE = ini_ops[MU1]
        max_val = max_err = 0.0
        overlap = "-"
        for view, ops in views:
            expect_keys = sorted(set(ini_ops) | set(fin_ops))
            if sorted(ops) != expect_keys:
                res.fail("ekos_product/points", f"{where}: points {sorted(ops)} expected {expect_keys}")
                continue
            for ep in ini_ops:
                if ep in fin_ops:
                    continue
                if not _same(ops[ep], ini_ops[ep]):
                    res.fail("ekos_product/initial-operator-changed", f"{where}: operator at {ep} of the initial EKO changed")
            for ep, (L, dL) in fin_ops.items():
                val, err = ops[ep]
                ref = T.compose(L, E)
                scale = T.compose(np.abs(L), np.abs(E))
                if ep in ini_ops:
                    # point present in both: keeping the initial EKO's operator is a legitimate choice
                    if _same(ops[ep], ini_ops[ep]):
                        overlap = "kept-initial" if ep == MU1 else "kept-other"
                        continue
                    overlap = "replaced" if ep == MU1 else "replaced-other"
                dev = float(np.max(np.abs(val - ref) / (scale + 1e-300)))
                if dev <= RT:
                    max_val = max(max_val, dev)  # head-room of the rounding allowance on agreeing operators
                else:
                    swapped = float(np.max(np.abs(val - T.compose(E, L))))
                    idx = np.unravel_index(np.argmax(np.abs(val - ref)), val.shape)
                    res.fail(
                        "ekos_product/value",
                        f"{where}: at {ep} element {tuple(int(i) for i in idx)}: got {val[idx]!r}, later.earlier gives {ref[idx]!r} "
                        f"(max rel dev {dev:.3g}; max |got - earlier.later| = {swapped:.3g})",
                    )
                if dL is not None and dE is not None:
                    if err is None:
                        res.fail("ekos_product/error-missing", f"{where}: no error at {ep} although both factors carry one")
                        continue
                    eref = T.compose_error(L, dL, E, dE)
                    edev = float(np.max(np.abs(err - eref) / (eref + 1e-300)))
                    if edev <= 1e-12:
                        max_err = max(max_err, edev)
                    else:
                        idx = np.unravel_index(np.argmax(np.abs(err - eref)), err.shape)
                        res.fail(
                            "ekos_product/error",
                            f"{where}: at {ep} element {tuple(int(i) for i in idx)}: error {err[idx]!r}, "
                            f"|later|.|d earlier|+|d later|.|earlier| gives {eref[idx]!r} (min of stored error {float(err.min())!r})",
                        )
                elif err is not None:
                    res.fail(
                        "ekos_product/error-invented",
                        f"{where}: error tensor at {ep} although a factor has none (the solver's rule gives none)",
                    )
        res.info = {"max_value_reldev_where_agreeing": max_val, "max_error_reldev_where_agreeing": max_err}
        res.outcome = f"composed:{case['mode']}:err={case['err']}:overlap={overlap}"
        # non-trivial: the two factors really do not commute, so an order error is visible
        L0 = next(iter(fin_ops.values()))[0]
        res.nontrivial = bool(np.max(np.abs(T.compose(L0, E) - T.compose(E, L0))) > 1e-3)
        return res
    finally:
        shutil.rmtree(d, ignore_errors=True)


def _cases(thorough):
    cases = []
    if thorough:
        kinds = [(a, b) for a in T.KINDS for b in T.KINDS]
        targets = ["t2", "t3", "tov"]
        matches = ["exact", "in+", "in-"]
        layouts = ["single", "other-first", "other-last"]
    else:
        kinds = [(a, b) for a in ("dense", "evol", "perm") for b in ("dense", "int")]
        targets = ["t3", "tov"]
        matches = ["exact", "in+"]
        layouts = ["other-first"]
    for ek, lk in kinds:
        for err in ERRS:
            for tg in targets:
                for mt in matches:
                    for mode in ("inplace", "copy"):
                        for lay in layouts:
                            cases.append(dict(ekind=ek, lkind=lk, err=err, targets=tg, match=mt, mode=mode, layout=lay, nx=2))
    # single-target final EKO with the remaining layouts; offsets at the edge of the tolerance
    for err in ERRS:
        for mode in ("inplace", "copy"):
            for lay in ("single", "other-last"):
                cases.append(dict(ekind="dense", lkind="dense", err=err, targets="t1", match="exact", mode=mode, layout=lay, nx=2))
            for lay in layouts:
                cases.append(dict(ekind="dense", lkind="dense", err=err, targets="t3", match="edge-in", mode=mode, layout=lay, nx=2))
    # 3-point grids (thorough: all kinds; quick: the dense pair)
    for ek, lk in (kinds if thorough else [("dense", "dense")]):
        for err in ("both", "fin-only"):
            for mode in ("inplace", "copy"):
                cases.append(dict(ekind=ek, lkind=lk, err=err, targets="t3", match="exact", mode=mode, layout="other-last", nx=3))
    for mode in ("inplace", "copy"):
        for lay in layouts:
            for err in ERRS:
                cases.append(dict(ekind="dense", lkind="dense", err=err, targets="t2", match="rtol-wide-in", mode=mode, layout=lay, nx=2))
    # error tensors with entries of both signs
    for ek, lk in (kinds if thorough else [("dense", "dense"), ("evol", "int"), ("perm", "dense")]):
        for err in ERRS_SIGNED:
            for tg in ("t3", "tov"):
                for mode in ("inplace", "copy"):
                    for lay in layouts:
                        cases.append(dict(ekind=ek, lkind=lk, err=err, targets=tg, match="exact", mode=mode, layout=lay, nx=2))
    for mode in ("inplace", "copy"):
        cases.append(dict(ekind="dense", lkind="dense", err="both-signed", targets="t3", match="in+", mode=mode, layout="other-last", nx=3))
    # tolerances given by the caller: absolute tolerance (accepted / refused), in place and to a new archive
    for mt in ("atol-wide-in", "atol-zero-out"):
        for mode in ("inplace", "copy"):
            for lay in ("single", "other-first", "other-last"):
                for err in ("both", "none"):
                    cases.append(dict(ekind="dense", lkind="evol", err=err, targets="t2", match=mt, mode=mode, layout=lay, nx=2))
    # a target of the final EKO that is another operator of the initial EKO
    for mode in ("inplace", "copy"):
        for lay in ("other-first", "other-last"):
            for err in ("both", "none", "fin-only"):
                cases.append(dict(ekind="dense", lkind="dense", err=err, targets="tother", match="exact", mode=mode, layout=lay, nx=2))
    # two points of the initial EKO inside the default tolerance; told apart by a tight rtol
    for mode in ("inplace", "copy"):
        for lay in ("twin-first", "twin-last"):
            for mt in ("exact", "rtol-1e-8"):
                for err in ("both", "none"):
                    cases.append(dict(ekind="dense", lkind="evol", err=err, targets="t2", match=mt, mode=mode, layout=lay, nx=2))
    # refusals
    bad = [k for k, v in MATCH.items() if not v["ok"] and k != "atol-zero-out"]
    for mt in bad if thorough else ["edge-out", "out", "far", "nf"]:
        for mode in ("inplace", "copy"):
            for lay in layouts:
                for tg in ("t1", "tov"):
                    cases.append(dict(ekind="dense", lkind="evol", err="both", targets=tg, match=mt, mode=mode, layout=lay, nx=2))
    return cases


def run(ctx):
    cases = _cases(ctx.thorough())
    ctx.run_cases(cases, evaluate)
    ctx.rule = (
        "complete product of (earlier kind, later kind) from {dense, evol, perm, diag, int}^2 (quick: {dense, evol, perm} x "
        "{dense, int}) x error presence {both, none, ini-only, fin-only} x target set of the final EKO {2 unsorted, 3 over "
        "two nf, one overlapping the initial EKO} (quick: last two) x offset of the final EKO's start from the initial EKO's "
        "point {0, +0.5, -0.5 tol} (quick: first two) x {in place, new archive} x layout of the initial EKO {single, other "
        "point first/last} (quick: other first); plus slices on the dense pair: single target x remaining layouts, offset 0.9 "
        "tol, wide rtol argument, 3-point grids; error tensors with entries of both signs {both, every other target} x {3 targets, "
        "overlapping} x mode on 3 (thorough: all) kind pairs; caller's absolute tolerance {0.05: accepted, rtol=atol=0 at offset "
        "1e-12: refused} x mode x 3 layouts; a final-EKO target equal to ANOTHER operator of the initial EKO; two initial points "
        "4e-7 apart {default tolerance, rtol 1e-8} x mode x order; refusals {1.1, +-2 tol, tight rtol, far, nf differs} x mode x layout; every "
        "operator of the re-read result compared with the tensordot reference (live object compared with the archive); "
        "non-trivial = composed and the two factors do not commute (or refused as required)"
    )
    ctx.assumptions += [
        "operators are synthetic (closed-form tensors of 5 families), x-grids of 2 and 3 points",
        "the rule is checked with mixed-sign values and with error tensors that are non-negative as well as of both signs",
        "a target present in both EKOs (the joining point itself, or another operator of the initial EKO) may keep the "
        "initial EKO's operator, bit by bit, or receive the product (both accepted; recorded in the outcome as "
        "overlap=kept-initial / kept-other / replaced / replaced-other)",
        "two points of the initial EKO within the tolerance of the final EKO's start: a refusal (nothing written, initial "
        "archive untouched) or the product with the exactly matching point are both accepted; with a tolerance that "
        "separates them the product is demanded",
        "rounding allowance 1e-13 relative to |later|.|earlier| for values, 1e-12 relative for errors",
    ]
