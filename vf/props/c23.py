"""C23 matrix exponentials and eigen-projectors (ekore.anomalous_dimensions.exp_matrix_2D / exp_matrix).

Complete product  (eigenvector frame V) x (eigenvalue set) ; M = V diag(lam) V^-1 is formed in double
precision and *that* double matrix is the input.  Reference: mpmath at 50 digits, two routes
(mp.expm and the spectral sum over mp.eig) which must agree with each other before they are used.
"""

import numpy as np

from vf.core.ctx import Result

ID = "C23"
LEVEL = "exploration"
TECHNIQUE = "exhaustive lattice of eigen-frames x eigenvalue sets against 50-digit mpmath expm / eig"
LEVEL_TEXT = (
    "exp_matrix_2D and exp_matrix are evaluated on every matrix of a fixed product lattice "
    "(diagonal, triangular, rotation-like, generic complex and block-decoupled frames; eigenvalue "
    "gaps >= 0.1, norms 0.1..50) and compared with a 50-digit reference exponential; the "
    "projector identities are checked one by one"
)
LEVEL_NOTE = (
    "decides the property on the lattice only; tolerance 1e-10 x (sum of projector norms); "
    "degenerate spectra only in the block-decoupled form that the QED kernels produce at a_em = 0"
)
FLOOR_NONTRIVIAL = 40

TOL = 1e-10

# ---------------------------------------------------------------- lattice
I2 = [[1, 0], [0, 1]]
FRAMES2 = {
    "diag": I2,
    "upper": [[1, 1], [0, 1]],
    "lower": [[1, 0], [-2, 1]],
    "hadamard": [[1, 1], [1, -1]],
    "int": [[1, 2], [3, 4]],
    "rot": [[1, 1], [-1j, 1j]],
    "cplx": [[1, 1j], [1j, 2]],
    "skew": [[2, 1 - 1j], [0.5j, 1]],
    "illcond": [[1, 1], [1, 1.0625]],
}
LAM2 = [
    [0.1, 0.3],
    [2 + 1j, -3],
    [10j, -10j],
    [25, 24.9],
    [-50, -1],
    [1, -1],
    [0, -5.5],
    [50, 0.5j],
    [-30 + 40j, 5],
    [0.1, -0.1j],
    [3.5 + 0.25j, 3.5 - 0.25j],
    [-0.75, 12],
]
FRAMES4 = {
    "diag": [[1, 0, 0, 0], [0, 1, 0, 0], [0, 0, 1, 0], [0, 0, 0, 1]],
    "upper": [[1, 1, 1, 1], [0, 1, 1, 1], [0, 0, 1, 1], [0, 0, 0, 1]],
    "hadamard": [[1, 1, 1, 1], [1, -1, 1, -1], [1, 1, -1, -1], [1, -1, -1, 1]],
    "int": [[2, 1, 0, 1], [1, 3, 1, 0], [0, 1, 4, 1], [1, 0, 1, 5]],
    "cplx": [[1, 1j, 0, 2], [1j, 2, 1, 0], [0.5, 0, 1 - 1j, 1j], [1, 1, 0, 3]],
    # QED singlet basis (g, ph, S, Sdelta) with only g and S mixing (the a_em = 0 structure)
    "block": [[1, 0, 2, 0], [0, 1, 0, 0], [3, 0, 4, 0], [0, 0, 0, 1]],
    "lowerc": [[1, 0, 0, 0], [0.5j, 1, 0, 0], [-1, 2, 1, 0], [0.25, -1j, 3, 1]],
}
LAM4 = [
    [0.1, 0.2, 0.3, 0.4],
    [0, -5.5, 3 + 2j, 3 - 2j],
    [25, 24.9, -25, 0.3],
    [-50, -1, -10, -20],
    [1, -1, 2, -2],
    [10j, -10j, 1, 0],
    [50, 0.5j, -7, 12 + 3j],
    [-30 + 40j, 5, -5, 1j],
]
# degenerate but diagonalisable spectra, only in the frames where the degeneracy is structural
# (this is what singlet_qed.eko_iterate feeds to exp_matrix at a_em = 0, N = 2)
LAM4_DEG = [[0, 0, 5, 1.5], [1.25, 0, 0, -2]]
DEG_FRAMES = ["diag", "block"]
NQUICK2, NQUICK4 = 6, 4


def _c(z):
    if isinstance(z, dict):
        return complex(z["re"], z["im"])
    return complex(z)


def build(dim, frame, lam):
    V = np.array((FRAMES2 if dim == 2 else FRAMES4)[frame], dtype=complex)
    return V @ np.diag(np.array(lam, dtype=complex)) @ np.linalg.inv(V)


def reference(M):
    """50-digit exponential of the double matrix M by two routes, plus spectral data."""
    import mpmath as mp

    with mp.workdps(50):
        A = mp.matrix(M.tolist())
        E1 = mp.expm(A)
        w, ER = mp.eig(A)
        ERi = ER ** -1
        n = M.shape[0]
        Ps = []
        for i in range(n):
            Ps.append(ER[:, i] * ERi[i, :])
        E2 = mp.zeros(n)
        for i in range(n):
            E2 += mp.exp(w[i]) * Ps[i]
        scale = max(abs(mp.exp(x)) for x in w)
        cross = float(max(abs(E1[i, j] - E2[i, j]) for i in range(n) for j in range(n)) / scale)
        toc = lambda X: np.array([[complex(X[i, j]) for j in range(X.cols)] for i in range(X.rows)])
        return toc(E1), [complex(x) for x in w], [toc(P) for P in Ps], float(scale), cross


def _match(ws, wref):
    """max distance after the best one-to-one matching of two small multisets."""
    import itertools

    best = None
    for perm in itertools.permutations(range(len(wref))):
        d = max(abs(ws[i] - wref[p]) for i, p in enumerate(perm))
        best = d if best is None or d < best else best
    return best


def evaluate(case):
    from ekore import anomalous_dimensions as ad

    dim, frame = case["dim"], case["frame"]
    lam = [_c(z) for z in case["lam"]]
    deg = bool(case.get("deg"))
    M = build(dim, frame, lam)
    res = Result()
    Eref, wref, Pref, scale, cross = reference(M)
    if cross > 1e-30 * max(1.0, sum(np.abs(P).max() for P in Pref)) ** 2 and not deg:
        raise RuntimeError(f"C23 reference routes disagree ({cross}) on {case}")
    kappa = max(1.0, sum(float(np.abs(P).max()) for P in Pref)) if not deg else 1.0
    normM = max(1.0, float(np.abs(M).max()))
    info = {}
    where = f"dim={dim} frame={frame} lam={lam} M={M.tolist()}"

    def check(fname, exp, ws, Ps):
        sig = f"{fname}/dim={dim}/frame={frame}" + ("/degenerate" if deg else "")
        vals = [exp] + list(ws) + list(Ps)
        if not all(np.all(np.isfinite(np.asarray(v))) for v in vals):
            res.fail(sig + "/nonfinite", f"{where}: exp={np.asarray(exp).tolist()} eig={list(ws)}")
            return
        m = {}
        m["exp"] = float(np.abs(exp - Eref).max() / scale / kappa)
        m["eig"] = float(_match(list(ws), wref) / normM / kappa)
        eye = np.eye(dim)
        m["complete"] = float(np.abs(sum(Ps) - eye).max() / kappa)
        m["spectral"] = float(np.abs(sum(w * P for w, P in zip(ws, Ps)) - M).max() / normM / kappa)
        m["idem"] = max(
            float(np.abs(Ps[i] @ Ps[j] - (Ps[i] if i == j else 0)).max()) / kappa**2
            for i in range(dim)
            for j in range(dim)
        )
        for k, v in m.items():
            key = f"max_{fname}_{k}_over_tol"
            info[key] = max(info.get(key, 0.0), v / TOL)
            if not v <= TOL:
                res.fail(
                    f"{sig}/{k}",
                    f"{where}: {k} deviation {v:.3e} (in units of kappa={kappa:.3g}) > {TOL}; "
                    f"got exp={np.asarray(exp).tolist()} ref={Eref.tolist()} eig={list(ws)} ref_eig={wref}",
                )

    with np.errstate(all="ignore"):
        if dim == 2 and not deg:
            try:
                exp, lp, lm, ep, em = ad.exp_matrix_2D(M.copy())
                check("exp_matrix_2D", np.asarray(exp), [complex(lp), complex(lm)], [np.asarray(ep), np.asarray(em)])
            except Exception as e:  # noqa
                res.fail(f"exp_matrix_2D/dim=2/frame={frame}/raises", f"{where}: {type(e).__name__}: {e}")
        try:
            exp, w, e = ad.exp_matrix(M.copy())
            check("exp_matrix", np.asarray(exp), [complex(x) for x in w], [np.asarray(e[i]) for i in range(dim)])
        except Exception as e:  # noqa
            res.fail(f"exp_matrix/dim={dim}/frame={frame}/raises", f"{where}: {type(e).__name__}: {e}")
    info["max_kappa"] = kappa
    info["max_reference_cross_check"] = cross
    res.info = info
    res.outcome = f"dim={dim}/{'deg' if deg else 'simple'}/" + ("ok" if not res.fails else "fail")
    return res


def cases(tier):
    out = []
    l2 = LAM2 if tier == "thorough" else LAM2[:NQUICK2]
    l4 = LAM4 if tier == "thorough" else LAM4[:NQUICK4]
    for f in FRAMES2:
        for lam in l2:
            out.append({"dim": 2, "frame": f, "lam": lam})
    for f in FRAMES4:
        for lam in l4:
            out.append({"dim": 4, "frame": f, "lam": lam})
    for f in DEG_FRAMES:
        for lam in LAM4_DEG:
            out.append({"dim": 4, "frame": f, "lam": lam, "deg": True})
    return out


def run(ctx):
    cs = cases(ctx.tier)
    ctx.run_cases(cs, evaluate)
    ctx.rule = (
        f"complete product of {len(FRAMES2)} 2x2 eigen-frames x {len(LAM2 if ctx.thorough() else LAM2[:NQUICK2])} "
        f"eigenvalue pairs (both exp_matrix_2D and exp_matrix) and {len(FRAMES4)} 4x4 frames x "
        f"{len(LAM4 if ctx.thorough() else LAM4[:NQUICK4])} eigenvalue quadruples (exp_matrix), gaps >= 0.1, |lambda| <= 50, "
        f"plus {len(DEG_FRAMES) * len(LAM4_DEG)} structurally degenerate block-decoupled 4x4 matrices; per matrix: exponential vs "
        "50-digit mpmath, eigenvalue multiset, P_iP_j = delta_ij P_i, sum P_i = 1, M = sum lambda_i P_i; non-trivial = all"
    )
    ctx.assumptions += [
        "tolerance 1e-10 in units of kappa = sum of the max-norms of the exact spectral projectors (kappa^2 for P_iP_j); "
        "exp relative to max |e^lambda|, spectral identities relative to max(1,|M|)",
        "the reference is computed from the double-precision input matrix itself (mp.expm, cross-checked against the mp.eig spectral sum)",
        "between lattice points nothing is claimed; defective or nearly defective matrices (gap < 0.1) are outside the statement",
    ]
