"""C23 matrix exponentials and eigen-projectors (ekore.anomalous_dimensions.exp_matrix_2D / exp_matrix).

Complete product  (eigenvector frame V) x (eigenvalue set) ; M = V diag(lam) V^-1 is formed in double
precision and *that* double matrix is the input.  Reference: mpmath at 50 digits, two routes
(mp.expm and the spectral sum over mp.eig) which must agree with each other before they are used.
"""

import numpy as np

from vf.core.ctx import Result

ID = "C23"
LEVEL = "exploration"
TECHNIQUE = "exhaustive lattice of eigen-frames x eigenvalue sets against 50-digit mpmath expm / eig"
LEVEL_TEXT = (
    "exp_matrix_2D and exp_matrix are evaluated on every matrix of a fixed product lattice "
    "(diagonal, triangular, rotation-like, generic complex and block-decoupled frames; eigenvalue "
    "gaps >= 0.1, norms 0.1..50) and on the exponent matrices eko really builds at points of its Talbot "
    "contour (LO singlet 2x2 in three kinematics, QED singlet 4x4 and valence 2x2), and compared with a "
    "50-digit reference exponential; the projector identities are checked one by one"
)
LEVEL_NOTE = (
    "decides the property on the lattice only; per-quantity tolerances 1e-13..5e-11 x (sum of projector norms), "
    "each >= 10x above the measured maximum; degenerate spectra only in the block-decoupled form that the QED kernels "
    "produce at a_em = 0 and as scalar 2x2 matrices; complex128 input only (a float64 matrix with complex eigenvalues "
    "is not a 'complex matrix' of the statement and is not exercised)"
)
FLOOR_NONTRIVIAL = 40

TOL = 1e-10  # common ceiling (original tolerance); the per-quantity tolerances below are all tighter
# per-quantity tolerances (units: kappa, kappa^2 for idem), >= 10x above the maxima measured on the unchanged tree in
# both tiers incl. the physical matrices (measured maxima in comments)
TOLS = {
    "exp_matrix_2D": {"exp": 1e-12, "eig": 1e-13, "complete": 1e-12, "spectral": 1e-12, "idem": 1e-12},
    #                 1.5e-14       1.6e-16       1.5e-14           1.5e-14           8.3e-15
    "exp_matrix": {"exp": 5e-11, "eig": 1e-13, "complete": 1e-13, "spectral": 1e-13, "idem": 1e-13},
    #              2.2e-12       2.8e-15       8.9e-16           1.7e-15           4.4e-15
}

# ---------------------------------------------------------------- lattice
I2 = [[1, 0], [0, 1]]
FRAMES2 = {
    "diag": I2,
    "upper": [[1, 1], [0, 1]],
    "lower": [[1, 0], [-2, 1]],
    "hadamard": [[1, 1], [1, -1]],
    "int": [[1, 2], [3, 4]],
    "rot": [[1, 1], [-1j, 1j]],
    "cplx": [[1, 1j], [1j, 2]],
    "skew": [[2, 1 - 1j], [0.5j, 1]],
    "illcond": [[1, 1], [1, 1.0625]],
}
LAM2 = [
    [0.1, 0.3],
    [2 + 1j, -3],
    [10j, -10j],
    [25, 24.9],
    [-50, -1],
    [1, -1],
    [0, -5.5],
    [50, 0.5j],
    [-30 + 40j, 5],
    [0.1, -0.1j],
    [3.5 + 0.25j, 3.5 - 0.25j],
    [-0.75, 12],
]
FRAMES4 = {
    "diag": [[1, 0, 0, 0], [0, 1, 0, 0], [0, 0, 1, 0], [0, 0, 0, 1]],
    "upper": [[1, 1, 1, 1], [0, 1, 1, 1], [0, 0, 1, 1], [0, 0, 0, 1]],
    "hadamard": [[1, 1, 1, 1], [1, -1, 1, -1], [1, 1, -1, -1], [1, -1, -1, 1]],
    "int": [[2, 1, 0, 1], [1, 3, 1, 0], [0, 1, 4, 1], [1, 0, 1, 5]],
    "cplx": [[1, 1j, 0, 2], [1j, 2, 1, 0], [0.5, 0, 1 - 1j, 1j], [1, 1, 0, 3]],
    # QED singlet basis (g, ph, S, Sdelta) with only g and S mixing (the a_em = 0 structure)
    "block": [[1, 0, 2, 0], [0, 1, 0, 0], [3, 0, 4, 0], [0, 0, 0, 1]],
    "lowerc": [[1, 0, 0, 0], [0.5j, 1, 0, 0], [-1, 2, 1, 0], [0.25, -1j, 3, 1]],
}
LAM4 = [
    [0.1, 0.2, 0.3, 0.4],
    [0, -5.5, 3 + 2j, 3 - 2j],
    [25, 24.9, -25, 0.3],
    [-50, -1, -10, -20],
    [1, -1, 2, -2],
    [10j, -10j, 1, 0],
    [50, 0.5j, -7, 12 + 3j],
    [-30 + 40j, 5, -5, 1j],
]
# degenerate but diagonalisable spectra, only in the frames where the degeneracy is structural
# (this is what singlet_qed.eko_iterate feeds to exp_matrix at a_em = 0, N = 2)
LAM4_DEG = [[0, 0, 5, 1.5], [1.25, 0, 0, -2]]
DEG_FRAMES = ["diag", "block"]
NQUICK2, NQUICK4 = 6, 4
# 2x2 scalar matrix through exp_matrix (QED valence exponent at a_em = 0 where both diagonal entries coincide);
# exp_matrix_2D is outside the statement there (det = 0): its behaviour is recorded as an outcome class, not judged
LAM2_DEG = [[1.25, 1.25], [-3 + 2j, -3 + 2j]]

# matrices eko really exponentiates: LO singlet exponents gamma_S^(0)(N) * j (kernels.singlet, j = j12 = ln(a0/a1)/beta0 range)
# and the first-step exponent of singlet_qed.eko_iterate / valence_qed (4x4 / 2x2), at points of the singlet Talbot contour
REAL_TX = [(0.5, 1e-7), (0.75, 0.1), (0.95, 0.1), (0.95, 0.9)]
REAL_FAM2 = ["us", "ps", "ut"]
REAL_J = [0.1, 1.0]
REAL_QED = [("qed.singlet", 4), ("qed.valence", 2)]


def talbot_singlet(t, x):
    """eko.mellin.Path(t, ln x, axis_offset=True).n written out from the definition."""
    import math

    r = 0.4 * 16.0 / (0.1 - math.log(x))
    th = math.pi * (2.0 * t - 1.0)
    return complex(1.0 + r * (1.0 if t == 0.5 else th / math.tan(th)), r * th)


def real_matrix(spec):
    """The exponent matrix eko builds for the given physical configuration (the matrix is INPUT data of this property)."""
    fam, nf = spec["family"], spec["nf"]
    N = talbot_singlet(spec["t"], spec["x"])
    if fam == "us":
        from ekore.anomalous_dimensions.unpolarized import space_like as ad

        return np.ascontiguousarray(ad.gamma_singlet((1, 0), N, nf, (0, 0, 0, 0, 0, 0, 0))[0]) * spec["j"]
    if fam == "ps":
        from ekore.anomalous_dimensions.polarized import space_like as ad

        return np.ascontiguousarray(ad.gamma_singlet((1, 0), N, nf)[0]) * spec["j"]
    if fam == "ut":
        from ekore.anomalous_dimensions.unpolarized import time_like as ad

        return np.ascontiguousarray(ad.gamma_singlet((1, 0), N, nf)[0]) * spec["j"]
    # QED: ln = gamma(a_s, a_em) / beta(a_s, a_em) * delta_a of one iteration step (singlet_qed.eko_iterate written out)
    from eko import beta
    from ekore.anomalous_dimensions.unpolarized import space_like as ad

    order = (2, 1)
    f = ad.gamma_singlet_qed if fam == "qed.singlet" else ad.gamma_valence_qed
    g = f(order, N, nf, (0, 0, 0, 0, 0, 0, 0))
    a_lo, a_hi, aem = spec["a0"], spec["a1"], spec["aem"]
    ah = 0.5 * (a_lo + a_hi)
    bt = beta.beta_qcd((2, 0), nf) * ah**2 + beta.beta_qcd((3, 0), nf) * ah**3 + beta.beta_qcd((2, 1), nf) * ah**2 * aem
    gam = sum(g[i, j] * ah**i * aem**j for i in range(order[0] + 1) for j in range(order[1] + 1))
    return np.ascontiguousarray(gam / bt * (a_hi - a_lo))


def _c(z):
    if isinstance(z, dict):
        return complex(z["re"], z["im"])
    return complex(z)


def build(dim, frame, lam):
    V = np.array((FRAMES2 if dim == 2 else FRAMES4)[frame], dtype=complex)
    return V @ np.diag(np.array(lam, dtype=complex)) @ np.linalg.inv(V)


def reference(M):
    """50-digit exponential of the double matrix M by two routes, plus spectral data."""
    import mpmath as mp

    with mp.workdps(50):
        A = mp.matrix(M.tolist())
        E1 = mp.expm(A)
        w, ER = mp.eig(A)
        ERi = ER ** -1
        n = M.shape[0]
        Ps = []
        for i in range(n):
            Ps.append(ER[:, i] * ERi[i, :])
        E2 = mp.zeros(n)
        for i in range(n):
            E2 += mp.exp(w[i]) * Ps[i]
        scale = max(abs(mp.exp(x)) for x in w)
        cross = float(max(abs(E1[i, j] - E2[i, j]) for i in range(n) for j in range(n)) / scale)
        toc = lambda X: np.array([[complex(X[i, j]) for j in range(X.cols)] for i in range(X.rows)])
        return toc(E1), [complex(x) for x in w], [toc(P) for P in Ps], float(scale), cross


def _match(ws, wref):
    """max distance after the best one-to-one matching of two small multisets."""
    import itertools

    best = None
    for perm in itertools.permutations(range(len(wref))):
        d = max(abs(ws[i] - wref[p]) for i, p in enumerate(perm))
        best = d if best is None or d < best else best
    return best


def evaluate(case):
    from ekore import anomalous_dimensions as ad

    dim, frame = case["dim"], case["frame"]
    deg = bool(case.get("deg"))
    if "real" in case:
        M = np.array(real_matrix(case["real"]), dtype=complex)
        lam = None
    else:
        lam = [_c(z) for z in case["lam"]]
        M = build(dim, frame, lam)
    res = Result()
    if M.shape != (dim, dim) or not np.all(np.isfinite(M)):
        raise RuntimeError(f"C23 input matrix malformed for {case}: {M!r}")
    Eref, wref, Pref, scale, cross = reference(M)
    if cross > 1e-30 * max(1.0, sum(np.abs(P).max() for P in Pref)) ** 2 and not deg:
        raise RuntimeError(f"C23 reference routes disagree ({cross}) on {case}")
    kappa = max(1.0, sum(float(np.abs(P).max()) for P in Pref)) if not deg else 1.0
    normM = max(1.0, float(np.abs(M).max()))
    info = {}
    where = f"dim={dim} frame={frame} lam={lam} M={M.tolist()}" + (f" config={case['real']}" if "real" in case else "")
    if not deg:
        gap = min(abs(wref[i] - wref[j]) for i in range(dim) for j in range(i))
        # the premise "well separated" as a measured quantity: |M| / smallest eigenvalue gap
        key = "max_inv_gap_physical" if "real" in case else "max_inv_gap_lattice"
        info[key] = float(np.abs(M).max() / gap) if gap > 0 else float("inf")

    def check(fname, exp, ws, Ps):
        sig = f"{fname}/dim={dim}/frame={frame}" + ("/degenerate" if deg else "")
        vals = [exp] + list(ws) + list(Ps)
        if not all(np.all(np.isfinite(np.asarray(v))) for v in vals):
            res.fail(sig + "/nonfinite", f"{where}: exp={np.asarray(exp).tolist()} eig={list(ws)}")
            return
        m = {}
        m["exp"] = float(np.abs(exp - Eref).max() / scale / kappa)
        m["eig"] = float(_match(list(ws), wref) / normM / kappa)
        eye = np.eye(dim)
        m["complete"] = float(np.abs(sum(Ps) - eye).max() / kappa)
        m["spectral"] = float(np.abs(sum(w * P for w, P in zip(ws, Ps)) - M).max() / normM / kappa)
        m["idem"] = max(
            float(np.abs(Ps[i] @ Ps[j] - (Ps[i] if i == j else 0)).max()) / kappa**2
            for i in range(dim)
            for j in range(dim)
        )
        for k, v in m.items():
            tol = min(TOL, TOLS[fname][k])
            key = f"max_{fname}_{k}_over_tol"
            info[key] = max(info.get(key, 0.0), v / tol)
            if not v <= tol:
                res.fail(
                    f"{sig}/{k}",
                    f"{where}: {k} deviation {v:.3e} (in units of kappa={kappa:.3g}) > {tol}; "
                    f"got exp={np.asarray(exp).tolist()} ref={Eref.tolist()} eig={list(ws)} ref_eig={wref}",
                )

    with np.errstate(all="ignore"):
        if dim == 2 and not deg:
            try:
                exp, lp, lm, ep, em = ad.exp_matrix_2D(M.copy())
                check("exp_matrix_2D", np.asarray(exp), [complex(lp), complex(lm)], [np.asarray(ep), np.asarray(em)])
            except Exception as e:  # noqa
                res.fail(f"exp_matrix_2D/dim=2/frame={frame}/raises", f"{where}: {type(e).__name__}: {e}")
        deg2d = ""
        if dim == 2 and deg:
            # outside the statement (not "well separated"); recorded, never judged
            try:
                out = ad.exp_matrix_2D(M.copy())
                deg2d = "/degenerate-2D:" + ("finite" if np.all(np.isfinite(np.asarray(out[0]))) else "nan")
            except Exception as e:  # noqa
                deg2d = f"/degenerate-2D:raises-{type(e).__name__}"
        try:
            exp, w, e = ad.exp_matrix(M.copy())
            check("exp_matrix", np.asarray(exp), [complex(x) for x in w], [np.asarray(e[i]) for i in range(dim)])
        except Exception as e:  # noqa
            res.fail(f"exp_matrix/dim={dim}/frame={frame}/raises", f"{where}: {type(e).__name__}: {e}")
    info["max_kappa"] = kappa
    info["max_reference_cross_check"] = cross
    res.info = info
    res.outcome = (
        f"dim={dim}/{'deg' if deg else 'simple'}{'/physical' if 'real' in case else ''}/" + ("ok" if not res.fails else "fail") + deg2d
    )
    return res


def cases(tier):
    out = []
    l2 = LAM2 if tier == "thorough" else LAM2[:NQUICK2]
    l4 = LAM4 if tier == "thorough" else LAM4[:NQUICK4]
    for f in FRAMES2:
        for lam in l2:
            out.append({"dim": 2, "frame": f, "lam": lam})
    for f in FRAMES4:
        for lam in l4:
            out.append({"dim": 4, "frame": f, "lam": lam})
    for f in DEG_FRAMES:
        for lam in LAM4_DEG:
            out.append({"dim": 4, "frame": f, "lam": lam, "deg": True})
    for lam in LAM2_DEG:
        out.append({"dim": 2, "frame": "diag", "lam": lam, "deg": True})
    out += real_cases(tier)
    return out


def real_cases(tier):
    out = []
    nfs = [3, 6] if tier != "thorough" else [3, 4, 5, 6]
    for t, x in REAL_TX:
        for nf in nfs:
            for fam in REAL_FAM2:
                for j in REAL_J:
                    out.append({"dim": 2, "frame": f"physical.{fam}", "real": {"family": fam, "nf": nf, "t": t, "x": x, "j": j}})
        for fam, dim in REAL_QED:
            for nf in ([3, 5, 6] if tier == "thorough" else [5]):
                # one iteration step a_s: 0.030 -> 0.020 (forward) and back, a_em = alpha/(4 pi)
                for a0, a1 in ((0.030, 0.020), (0.020, 0.030)):
                    out.append(
                        {
                            "dim": dim,
                            "frame": f"physical.{fam}",
                            "real": {"family": fam, "nf": nf, "t": t, "x": x, "a0": a0, "a1": a1, "aem": 0.00058},
                        }
                    )
    return out


def run(ctx):
    cs = cases(ctx.tier)
    ctx.run_cases(cs, evaluate)
    ctx.rule = (
        f"complete product of {len(FRAMES2)} 2x2 eigen-frames x {len(LAM2 if ctx.thorough() else LAM2[:NQUICK2])} "
        f"eigenvalue pairs (both exp_matrix_2D and exp_matrix) and {len(FRAMES4)} 4x4 frames x "
        f"{len(LAM4 if ctx.thorough() else LAM4[:NQUICK4])} eigenvalue quadruples (exp_matrix), gaps >= 0.1, |lambda| <= 50, "
        f"plus {len(DEG_FRAMES) * len(LAM4_DEG)} structurally degenerate block-decoupled 4x4 matrices; per matrix: exponential vs "
        "50-digit mpmath, eigenvalue multiset, P_iP_j = delta_ij P_i, sum P_i = 1, M = sum lambda_i P_i; non-trivial = all. "
        f"Plus {len(LAM2_DEG)} scalar 2x2 matrices through exp_matrix (exp_matrix_2D recorded only), and {len(real_cases(ctx.tier))} "
        "matrices eko really exponentiates: gamma_S^(0)(N) * j (unpolarised, polarised, time-like; j in "
        f"{REAL_J}) and the first-step exponents of the QED singlet (4x4) and valence (2x2) iteration (order (2,1), a_s 0.03<->0.02), "
        f"nf {'3-6' if ctx.thorough() else '3, 6 (QED: 5)'}, at the singlet Talbot contour points (t, x) in {REAL_TX} (Re N from 1.4 "
        "down to -270); their |M| / min eigenvalue gap is recorded as max_inv_gap_physical"
    )
    ctx.assumptions += [
        "per-quantity tolerances in units of kappa = sum of the max-norms of the exact spectral projectors (kappa^2 for P_iP_j): "
        f"{TOLS}; exp relative to max |e^lambda|, spectral identities relative to max(1,|M|)",
        "the physical matrices are built from ekore's anomalous dimensions (input data here) with the exponent formulas of "
        "kernels.singlet / singlet_qed.eko_iterate written out in the check; the contour points are written out from eko.mellin's definition",
        "the reference is computed from the double-precision input matrix itself (mp.expm, cross-checked against the mp.eig spectral sum)",
        "between lattice points nothing is claimed; defective or nearly defective matrices (gap < 0.1) are outside the statement",
    ]
