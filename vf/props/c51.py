"""C51 scale-varied EKOs agree with the central EKO to the working order (X-conf, S2).

xi = 1: both schemes must reproduce the unvaried operator bit by bit (QCD 1-4, QED x QCD; fixed-flavour
and across a threshold, upward and downward).
xi^2 in {1/4, 1/2, 2, 4}: the strong coupling is scaled through alpha_s(ref) = 0.35 lambda,
lambda = 2^-3 .. 2^-8, and the relative difference to the unvaried operator must vanish at least
like a_s^n (scaling-exponent oracle in the asymptotic window, vf.core.scaling). Exact Mellin
moments through the real runner (moment probe); channels: full flavour matrix (singlet dominated),
ns- (u - ubar) and ns+ combinations, and (property-local) the blocks of the operator in the
(Sigma, g) / valence / pure non-singlet directions built from flavour rows and columns (+ photon blocks on the joint ladder): the
difference of each block is measured against the size of the whole operator, so an error confined to a
small block is judged on its own exponent instead of being hidden behind the largest entry.

Two coupling ladders for QED x QCD cards
  * negligible alpha_em (1e-10): the QCD axis of the QED code path (coupling steps, QED kernels, QED variation
    dispatchers); every alpha_em-proportional term is below the noise floor there;
  * alpha_em(ref) = 0.12 lambda (a_em ~ a_s / 3, case key `aem_ratio`): both couplings shrink together, so that
    the alpha_em-proportional variation terms are judged as well. At order (n, m) the anomalous dimensions are
    complete through lambda^min(n, m) (a_s^k for k <= n, a_em^k for k <= m, a_s a_em), hence "only missing higher
    orders are probed" reads: the residual vanishes at least like lambda^min(n, m).

Family `exponent+1`: why the exponentiated scheme must reach a_s^(n+1) on fixed-flavour paths
-----------------------------------------------------------------------------------------
Definition of the scheme (documentation, "scheme A"): the couplings at both ends of the evolution are taken at
the shifted scale, a' = a_s(xi^2 mu^2), and the anomalous dimension gamma(a) = sum_{k<n} gamma_k a^(k+1) is
*re-expressed* in a': with L = ln xi^2 and da/dln mu^2 = -sum_k beta_k a^(k+2),
    a(mu^2) = a' + beta0 L a'^2 + (beta1 L + beta0^2 L^2) a'^3 + (beta2 L + 5/2 beta0 beta1 L^2 + beta0^3 L^3) a'^4 + ...
and gammabar(a') is gamma(a(mu^2)) re-expanded in a' and truncated after a'^n. By construction
    gammabar(a'(mu^2)) - gamma(a(mu^2)) = O(a^(n+1))                      (*)
for every mu^2 of the path (the coupling solution of order n satisfies the re-expansion through a'^n: the
coefficient of a'^k needs beta_0 .. beta_(k-2); the expanded coupling solution differs from the exact one by
O(a^(n+1))). The unvaried operator solves d f/d ln mu^2 = -gamma(a(mu^2)) f and the exponentiated one
d f/d ln mu^2 = -gammabar(a'(mu^2)) f over the SAME interval of ln mu^2 (both ends are shifted), so by (*) the
two exact solutions differ by O(a^(n+1)) * ln(mu1^2/mu0^2) relative. The solution methods enumerated here do not
spoil this: `truncated` drops homogeneous polynomials of degree n in (a1, a0) that vanish at a1 = a0, i.e.
(a1 - a0) * O(a^(n-1)) = O(a^(n+1)) at fixed scales; the non-singlet `iterate-exact` is a closed form; the
singlet `iterate-exact` has a midpoint-rule error ~ gamma0/beta0 (a ln(mu1^2/mu0^2))^3 / iterations^2 whose leading
coefficient is the same in both runs (a' = a (1 + O(a))), so it cancels up to O(a^4); the iterated QED solution steps in mu^2
and takes the couplings at the arithmetic middle of each step, its quadrature errors differ between the runs at O(a^3)/iterations.
Therefore, for n <= 4 (`iterate-exact`: n <= 3, QED cards: n <= 2) the residual must vanish like a_s^(n+1); a residual that has
converged to a_s^n is NOT "only missing higher orders" - it is exactly a wrong coefficient in the top line of
`gamma_variation` (gamma[n-1] += ...), which no case of order n+1 can decide for n = 4.
The argument does NOT hold (and the family is not applied)
  * for the expanded scheme (only the target end is shifted, K is truncated at a^(n-1): residual exactly a^n),
  * across a threshold (the matching is truncated at a^(n-1); its re-expansion leaves 2 beta0 L a'^n A_(n-1)).
On the alpha_em-proportional ladder the same argument gives lambda^(min(n, m) + 1): with
    a_em(mu^2) = a_em' + beta0qed L a_em'^2 + O(lambda^3)   (running; a_em(mu^2) = a_em' if alpha_em is fixed)
the re-expansion of gamma(a_s(mu^2), a_em(mu^2)) through lambda^2 is
    gamma10 a_s' + gamma01 a_em' + (gamma20 + beta0 L gamma10) a_s'^2 + gamma11 a_s' a_em' + (gamma02 + beta0qed L gamma01) a_em'^2,
which is what `gamma_variation_qed` implements for m = 2 (the gamma11 beta L a_s'^2 a_em', a_s' a_em'^2 terms are lambda^3 and
documented as neglected); for n = 1 the a_s'^2 term is the first one not reproduced (lambda^2). Applied for m = 2 only: for m = 1 the
first term not reproduced (a_em'^2, no compensation term exists) is small and cancels against the a_s^3 residual inside the ladder.

Signatures carry the sector that fails (singlet = (Sigma, g, photon) blocks, valence, ns = pure non-singlet combinations
(u -+ ubar) - (c -+ cbar), (d -+ dbar) - (s -+ sbar); mixed = full / ns- / ns+ of the first version, reported only if no pure
sector fails) and the integer power the residual has converged to.
"""

import numpy as np

from vf.core import probe, scaling
from vf.core.ctx import Result

ID = "C51"
LEVEL = "exploration"
TECHNIQUE = "exhaustive enumeration of (order, scheme, ratio, method, path, coupling ladder) through the real runner at the moment seam; bitwise oracle at xi=1, scaling-exponent oracle otherwise (a_s^n for both schemes, a_s^(n+1) for the exponentiated scheme on fixed-flavour paths)"
LEVEL_TEXT = (
    "for every order (QCD 1-4, QED x QCD up to (3,2) running/fixed), scheme, ratio and channel (full matrix, ns+-, singlet/valence/photon blocks) "
    "the residual to the central operator is computed on a 6-point coupling ladder; its local exponent in the asymptotic window must reach the "
    "perturbative order (one more for the exponentiated scheme without thresholds, derived from the definition of the scheme); QED cards on two "
    "ladders (alpha_em negligible; alpha_em proportional to alpha_s); threshold crossings (up in quick, down in thorough)"
)
LEVEL_NOTE = "moment-probe seam (N = 2, 3.5, 6); lambda ladder 2^-3..2^-8; alpha_em-proportional ladder only for QED orders (1,2), (2,1), (2,2)"
FLOOR_NONTRIVIAL = 20

MOMENTS = [2.0, 3.5, 6.0]
PID = probe.FLAVOR_PIDS
LAMBDAS = [2.0**-i for i in range(3, 9)]
AEM_RATIO = 0.12  # alpha_em(ref) = AEM_RATIO * lambda next to alpha_s(ref) = 0.35 * lambda
OWN = ("full", "ns-", "ns+")
BLOCKS = ("S:qq", "S:qg", "S:gq", "S:gg", "V", "NS:Vu3", "NS:Tu3", "NS:Vd3", "NS:Td3")
PHOTON = ("A:AA", "A:Aq", "A:qA", "A:Ag", "A:gA")


def sector(channel):
    """Discrete coordinate of a failure: which part of the operator does not scale.

    `mixed` = the three channels of the first version (in flavour space they mix sectors: with QED, u - ubar is half
    valence and half non-singlet); it is only reported when no pure sector fails.
    """
    if channel in OWN:
        return "mixed"
    return {"S": "singlet", "A": "singlet", "V": "valence", "N": "ns"}[channel[0]]


_Q = [PID.index(p) for p in (1, 2, 3, 4, 5)]
_QB = [PID.index(-p) for p in (1, 2, 3, 4, 5)]
_G, _A = PID.index(21), PID.index(22)
_S = np.zeros(14)
_S[_Q + _QB] = 1.0
_V = np.zeros(14)
_V[_Q] = 1.0
_V[_QB] = -1.0


def _channels(M):
    u, ub, d = PID.index(2), PID.index(-2), PID.index(1)
    return {
        "full": M,
        "ns-": np.array([M[u, u] - M[u, ub]]),
        "ns+": np.array([(M[u, u] + M[u, ub]) - (M[d, u] + M[d, ub])]),
    }


def _blocks(M, qed):
    """Blocks of the flavour matrix in the (Sigma, g[, photon]) and total-valence directions (linear functionals of M).

    Sigma = sum over d,u,s,c,b of (q + qbar), V = sum of (q - qbar); the input direction carries the weight 1/10.
    """
    u, ub, d, db, s, sb, c, cb = (PID.index(p) for p in (2, -2, 1, -1, 3, -3, 4, -4))
    b = {
        "S:qq": _S @ M @ _S / 10.0,
        "S:qg": _S @ M[:, _G],
        "S:gq": M[_G, :] @ _S / 10.0,
        "S:gg": M[_G, _G],
        "V": _V @ M @ _V / 10.0,
        # pure non-singlet combinations (also with QED, where they are the ns-u, ns+u, ns-d, ns+d kernels):
        # response of (u -+ ubar) - (c -+ cbar) to u, and of (d -+ dbar) - (s -+ sbar) to d
        "NS:Vu3": (M[u, u] - M[ub, u]) - (M[c, u] - M[cb, u]),
        "NS:Tu3": (M[u, u] + M[ub, u]) - (M[c, u] + M[cb, u]),
        "NS:Vd3": (M[d, d] - M[db, d]) - (M[s, d] - M[sb, d]),
        "NS:Td3": (M[d, d] + M[db, d]) - (M[s, d] + M[sb, d]),
    }
    if qed:
        b.update({"A:AA": M[_A, _A], "A:Aq": M[_A, :] @ _S / 10.0, "A:qA": _S @ M[:, _A], "A:Ag": M[_A, _G], "A:gA": M[_G, _A]})
    return b


def _g_qq(N):
    """gamma_ns^(0)(N) / C_F = 4 S_1(N) - 3 - 2 / (N (N + 1)) (the a_em^1 quark anomalous dimension is e_q^2 times this)."""
    import mpmath

    return float(4 * mpmath.harmonic(N) - 3 - mpmath.mpf(2) / (N * (N + 1)))


def pinned_model(case, sec, c, v, lam):
    """Name of the recorded defect whose closed form the failing sector follows at the smallest coupling, or None.

    Two defects of the expanded scheme at QED order m >= 2 are visible on the joint ladder (residual ~ a_em^1):
      * running alpha_em, non-singlet kernels: the factor K carries + a_em L gamma_ns^(0,1), but the pure-QED factor of the
        non-singlet solution spans ln(mu1^2/mu0^2) (not up to xi^2 mu1^2): relative change of the kernel = + a_em L e_q^2 g(N);
      * fixed alpha_em, matrix (singlet, valence) sectors: the QED part is evolved up to xi^2 mu1^2 together with alpha_s and K has no
        a_em term: change = - a_em L gamma^(0,1): photon-photon: gamma = 4/3 N_c sum_q e_q^2, total valence: e_q^2 g(N) summed.
    c, v: central / varied moment matrices at coupling scale lam (nf = 4 active). Tolerance 5 % (corrections are O(lambda)).
    """
    n, m = case["order"]
    if not (case["sv"] == "expanded" and "aem_ratio" in case and m >= 2 and case["path"] == "ffns"):
        return None
    aem = case["aem_ratio"] * lam / (4 * np.pi)
    L = float(np.log(case["xif2"]))
    eu2, ed2 = 4.0 / 9.0, 1.0 / 9.0
    worst = 0.0
    for j, N in enumerate(MOMENTS):
        bc, bv = _blocks(c[j], True), _blocks(v[j], True)
        if sec == "ns" and case.get("em_running", False):
            # up-type kernels only: for the down-type ones the a_em term is 4 times smaller and the regular lambda^2 residual still matters
            for k, e2 in (("NS:Vu3", eu2), ("NS:Tu3", eu2)):
                worst = max(worst, abs((bv[k] / bc[k] - 1.0) / (aem * L * e2 * _g_qq(N)) - 1.0))
        elif sec == "singlet" and not case.get("em_running", False):
            worst = max(worst, abs((bv["A:AA"] / bc["A:AA"] - 1.0) / (-aem * L * 4.0 * (2 * eu2 + 2 * ed2)) - 1.0))
        elif sec == "valence" and not case.get("em_running", False):
            worst = max(worst, abs((bv["V"] - bc["V"]) / (-aem * L * 0.2 * (2 * eu2 + 2 * ed2) * _g_qq(N)) - 1.0))
        else:
            return None
    name = {"ns": "K-aem-term-without-qed-extension", "singlet": "qed-extension-without-K-aem-term", "valence": "qed-extension-without-K-aem-term"}[sec]
    return name if worst < 0.05 else None


def _cfg(case, sv, xif, lam):
    qed = case["order"][1] > 0
    path = case["path"]
    c = dict(
        order=case["order"],
        method=case["method"],
        masses=[1.0, 4.5, 100.0],
        ratios=[1.0, "inf", "inf"] if path == "ffns" else [1.0, 1.0, "inf"],
        ref=[10.0, 4] if path == "ffns" else [3.0, 4],
        alphas=0.35 * lam,
        alphaem=(case["aem_ratio"] * lam if "aem_ratio" in case else 1e-10) if qed else 0.0075,
        em_running=case.get("em_running", False),
        init={"ffns": [5.0, 4], "wall": [3.0, 4], "wall-down": [20.0, 5]}[path],
        mugrid={"ffns": [[50.0, 4]], "wall": [[20.0, 5]], "wall-down": [[3.0, 4]]}[path],
        sv=sv,
        xif=xif,
        # the iterated QED solution has a discretisation error ~ a_s^2/iterations^2 that differs between the
        # central and the varied run: enough steps to keep it below the a_s^n residual on the ladder
        iterations=case.get("iterations", ({1: 8, 2: 32, 3: 256}.get(case["order"][0], 8) if qed else 8)),
    )
    c.update(case.get("extra", {}))
    return c


def _solve(case, sv, xif, lam):
    out = probe.moment_solve(_cfg(case, sv, xif, lam), MOMENTS)
    (ep, m), = out.items()
    return m


def requirement(case):
    """Exponent that the property demands for this case (a_s^n; lambda^min(n, m) on the joint ladder)."""
    n, m = case["order"]
    return min(n, m) if "aem_ratio" in case else n


def plus_requirement(case):
    """Exponent of the `exponent+1` family (module docstring), or None where the argument does not hold."""
    n, m = case["order"]
    if case["sv"] != "exponentiated" or case["path"] != "ffns":
        return None
    if "aem_ratio" in case:
        # m = 1: the first term that is not reproduced (beta0qed L gamma01 a_em'^2, small: e_q^2) competes with the a_s^3 residual of the
        # QCD axis with the opposite sign; the residual changes sign inside the ladder (measured at (2,1), xi^2 = 2: local exponents
        # 1.13, 1.16 right after the zero, true power 2): not decidable on this ladder, and there is no compensation term to decide
        return min(n, m) + 1 if (n <= 2 and m >= 2) else None
    if m > 0:
        # iterated QED solution: steps in mu^2 with the couplings at the arithmetic middle of each step; the quadrature errors of the
        # central and the varied run differ at O(a_s^3) / iterations (measured: a drifting a_s^3 tail at (3,1)): decidable for n <= 2 only
        return n + 1 if n <= 2 else None
    if case["method"] == "truncated":
        return n + 1 if n <= 4 else None
    if case["method"] == "iterate-exact":
        return n + 1 if n <= 3 else None
    return None


def evaluate(case):
    res = Result()
    n = case["order"][0]
    sv = case["sv"]
    qed = case["order"][1] > 0
    where = f"order={case['order']} sv={sv} xif2={case['xif2']} method={case['method']} path={case['path']} em_running={case.get('em_running', False)}"
    cls = f"sv={sv}/qcd={n},qed={case['order'][1]},run={int(case.get('em_running', False))}/{case['path']}"
    if "aem_ratio" in case:
        where += f" alpha_em={case['aem_ratio']}*lambda"
        cls += "/aem~as"
    if case.get("extra"):
        cls += "/" + ",".join(sorted(k for k, v in case["extra"].items() if v))
    # photon blocks only on the joint ladder: with alpha_em = 1e-10 (not scaled) they carry a constant ~ a_em L gamma_phph ~ 5e-11
    photon = qed and "aem_ratio" in case
    names = OWN + BLOCKS + (PHOTON if photon else ())
    try:
        if case["xif2"] == 1.0:
            lam = 1.0 / 8
            c = _solve(case, None, 1.0, lam)
            v = _solve(case, sv, 1.0, lam)
            if c.tobytes() != v.tobytes():
                d = float(np.abs(c - v).max())
                res.fail(f"xi=1/not-identical/{cls}", f"{where}: scheme with unit ratio differs from the unvaried operator (max abs diff {d:.3e})")
            res.outcome = "xi=1:identical"
            res.info = {"max_diff_xi1": float(np.abs(c - v).max())}
            return res
        xif = case["xif2"] ** 0.5
        resid = {k: [] for k in names}
        for lam in LAMBDAS:
            c = _solve(case, None, 1.0, lam)
            v = _solve(case, sv, xif, lam)
            for k in OWN:
                r = 0.0
                for j in range(len(MOMENTS)):
                    a, b = _channels(c[j])[k], _channels(v[j])[k]
                    r = max(r, float(np.abs(a - b).max() / np.abs(a).max()))
                resid[k].append(r)
            rb = {k: 0.0 for k in names if k not in OWN}
            for j in range(len(MOMENTS)):
                scale = float(np.abs(c[j]).max())
                bc, bv = _blocks(c[j], photon), _blocks(v[j], photon)
                for k in rb:
                    rb[k] = max(rb[k], float(abs(bc[k] - bv[k])) / scale)
            for k, r in rb.items():
                resid[k].append(r)
        c_last, v_last = c, v
    except (NotImplementedError, ValueError) as e:
        res.outcome = f"refused:{str(e)[:40]}"
        res.nontrivial = False
        return res
    except Exception as e:  # noqa
        res.fail(f"solve/crash/{type(e).__name__}/{cls}", f"{where}: {type(e).__name__}: {str(e)[:200]}")
        return res
    floor = 1e-13
    need = requirement(case)
    plus = plus_requirement(case)
    info = {}
    allzero = True
    deficit, deficit_plus, settled = {}, {}, {}
    failed = {"exponent": [], "exponent+1": []}
    for k, rr in resid.items():
        ok, inf = scaling.judge(rr, need, floor=floor)
        info[k] = inf
        if any(r > floor for r in rr):
            allzero = False
        if not ok:
            failed["exponent"].append((k, inf))
        if "last_two" in inf:
            info[f"max_deficit_{k}"] = max(0.0, need - min(inf["last_two"]))
            deficit[k] = info[f"max_deficit_{k}"]
            if abs(inf["last_two"][0] - inf["last_two"][1]) < 0.15:
                # what the failure rule looks at: a pair that has settled fails when its larger member is more than 0.25 short
                settled[k] = max(0.0, need - max(inf["last_two"]))
        if plus is not None:
            ok, inf = scaling.judge(rr, plus, floor=floor)
            if not ok:
                failed["exponent+1"].append((k, inf))
            if "last_two" in inf:
                deficit_plus[k] = max(0.0, plus - min(inf["last_two"]))
    for family, items in failed.items():
        pure = {sector(k) for k, _ in items} - {"mixed"}
        for k, inf in items:
            if sector(k) == "mixed" and pure:
                continue  # explained by the pure sector(s) reported below
            usable = [e for e in inf["exponents"] if e is not None]
            conv = int(round(usable[-1])) if usable and "non-finite" not in inf.get("reason", "") else "none"
            sig = f"{family}/{cls}/sector={sector(k)}/conv={conv}"
            if family == "exponent" and case["sv"] == "expanded" and "aem_ratio" in case and case["order"][1] >= 2:
                # the entry of the two recorded defects: keep their signature only for failures that follow the closed form
                model = pinned_model(case, sector(k), c_last, v_last, LAMBDAS[-1]) if conv == 1 else None
                sig += f"/model={model}" if model else "/beyond-known"
            if family == "exponent":
                res.fail(sig, f"{where} channel {k}: residual to the central operator does not vanish like a_s^{need}: {inf}")
            else:
                res.fail(
                    sig,
                    f"{where} channel {k}: the exponentiated scheme re-expands the anomalous dimensions through order {plus - 1}, so without thresholds "
                    f"the residual must vanish like a_s^{plus}; it has converged to a lower power (wrong top-order compensation term): {inf}",
                )
    # measured maxima = head-room of the tolerances on what passes: the sectors that fail (recorded defects; also their channels that are
    # still drifting, and the mixed channels) are counted as failures, not here
    bad = {}
    for fam, items in failed.items():
        secs = {sector(k) for k, _ in items} | ({"mixed"} if items else set())
        bad[fam] = {k for k in resid if sector(k) in secs}
    res.info = {"max_deficit": max([0.0] + [d for k, d in deficit.items() if k not in bad["exponent"]]), "detail": info}
    res.info["max_deficit_settled"] = max([0.0] + [d for k, d in settled.items() if k not in bad["exponent"]])
    if bad["exponent"]:
        res.info["deficit_of_failing_channels"] = max(d for k, d in deficit.items() if k in bad["exponent"])
    if plus is not None:
        res.info["max_deficit_plus"] = max([0.0] + [d for k, d in deficit_plus.items() if k not in bad["exponent+1"]])
    res.outcome = f"{sv}:n={need}{'+1' if plus is not None else ''}:{'does-nothing' if allzero else 'varies'}"
    res.nontrivial = not allzero
    return res


def run(ctx):
    cases = []
    qcd_orders = [[n, 0] for n in (1, 2, 3, 4)]
    qed_orders = [[1, 1], [2, 1], [2, 2], [3, 1]] + ([[3, 2], [1, 2]] if ctx.thorough() else [])
    xif2s = [0.25, 4.0] if not ctx.thorough() else [0.25, 0.5, 2.0, 4.0]
    for sv in ("expanded", "exponentiated"):
        for order in qcd_orders:
            # iterate-exact at N3LO: its discretisation error (~a_s^3 / iterations^2, different for the central and the varied
            # run) hides the a_s^4 residual on any affordable number of iterations: judged with the truncated method only
            methods = ["truncated", "iterate-exact"] if order[0] <= 3 else ["truncated"]
            for m in methods:
                cases.append(dict(order=order, sv=sv, xif2=1.0, method=m, path="ffns"))
                for x2 in xif2s:
                    cases.append(dict(order=order, sv=sv, xif2=x2, method=m, path="ffns"))
        for order in qed_orders:
            for run_ in (False, True):
                cases.append(dict(order=order, sv=sv, xif2=1.0, method="iterate-exact", path="ffns", em_running=run_))
                for x2 in xif2s:
                    cases.append(dict(order=order, sv=sv, xif2=x2, method="iterate-exact", path="ffns", em_running=run_))
        # threshold crossing (upward): the threshold operator skips the expanded factor, the exponentiated scheme shifts the
        # coupling thresholds and re-expands the matching; quick: NLO only
        for order in ([1, 0], [2, 0], [3, 0]) if ctx.thorough() else ([2, 0],):
            for x2 in xif2s + [1.0]:
                cases.append(dict(order=order, sv=sv, xif2=x2, method="truncated", path="wall"))
        # alpha_em proportional to alpha_s: running alpha_em (its alpha_em terms are compensated for m = 2) and fixed alpha_em
        # (documented: only alpha_s is varied); quick: fixed only at (2,2), xi^2 = 4
        for order in ([1, 2], [2, 2]) + (([2, 1],) if ctx.thorough() else ()):
            for run_ in (True, False):
                for x2 in xif2s:
                    if not run_ and not ctx.thorough() and (order != [2, 2] or x2 != 4.0):
                        continue
                    cases.append(dict(order=order, sv=sv, xif2=x2, method="iterate-exact", path="ffns", em_running=run_, aem_ratio=AEM_RATIO))
        if ctx.thorough():
            # backward evolution across the threshold (inverse matching) combined with both schemes
            for order in ([2, 0], [3, 0]):
                for x2 in (0.25, 4.0, 1.0):
                    cases.append(dict(order=order, sv=sv, xif2=x2, method="truncated", path="wall-down"))
            for order in ([2, 0], [3, 0]):
                for x2 in (0.25, 4.0):
                    cases.append(dict(order=order, sv=sv, xif2=x2, method="truncated", path="ffns", extra=dict(polarized=True)))
                    cases.append(dict(order=order, sv=sv, xif2=x2, method="truncated", path="ffns", extra=dict(time_like=True)))
    results = ctx.run_cases(cases, evaluate, chunksize=1)
    nothing = sorted({f"{c['order']}/{c['sv']}" for c, r in results if r[0] and "does-nothing" in r[0]})
    ctx.extra["configurations_where_the_scheme_changes_nothing"] = nothing
    ctx.rule = (
        f"schemes expanded/exponentiated x QCD orders 1-4 (2 methods) and QED x QCD orders {qed_orders} (alpha_em fixed and running) x "
        f"xi^2 in {xif2s} plus xi=1 (bitwise), fixed-flavour evolution 5 -> 50 GeV"
        + (" + threshold crossing 4 -> 5 at orders 1-3 and 5 -> 4 (backward) at orders 2, 3 + polarised/time-like" if ctx.thorough() else " + threshold crossing 4 -> 5 at NLO")
        + f"; QED orders (1,2), (2,2){', (2,1)' if ctx.thorough() else ''} again with alpha_em = {AEM_RATIO} lambda (running; fixed: "
        + ("all" if ctx.thorough() else "(2,2) at xi^2 = 4")
        + "); each case = one configuration with its 6-step coupling ladder, 3 + 9 channels (+5 photon blocks on the joint ladder); non-trivial = the scheme changes the operator"
    )
    ctx.assumptions += [
        "asymptotic-window rule: fails only if the last two local exponents are both below n-0.25 and agree to 0.15 (or are a full unit short); "
        "max_deficit = n - min(last two) over all passing channels (includes channels still drifting after a sign change of the residual, e.g. 0.68 at "
        "NNLO exponentiated across the threshold downward), max_deficit_settled = n - max(last two) over pairs that agree to 0.15 (must stay below 0.25)",
        "QED cards without `aem_ratio` use alpha_em = 1e-10: only the a_s axis of the QED code path is judged there",
        "joint ladder (alpha_em = 0.12 lambda): 'perturbative order' is read as min(n, m), the power through which the anomalous dimensions are complete",
        "family exponent+1 (exponentiated scheme, no threshold): derived from the definition of the scheme, see the module docstring; "
        "same asymptotic-window rule with n+1 (joint ladder: min(n, m)+1)",
    ]
