"""C51 scale-varied EKOs agree with the central EKO to the working order (X-conf, S2).

xi = 1: both schemes must reproduce the unvaried operator bit by bit (QCD 1-4, QED x QCD).
xi^2 in {1/4, 1/2, 2, 4}: the strong coupling is scaled through alpha_s(ref) = 0.35 lambda,
lambda = 2^-3 .. 2^-8, and the relative difference to the unvaried operator must vanish at least
like a_s^n (scaling-exponent oracle in the asymptotic window, vf.core.scaling). Exact Mellin
moments through the real runner (moment probe); channels: full flavour matrix (singlet dominated),
ns- (u - ubar) and ns+ combinations.
QED x QCD cards are run with a negligible alpha_em (1e-10): they exercise the QCD axis of the QED
code path (coupling steps, QED kernels, QED variation dispatchers); terms proportional to alpha_em
that the fixed-alpha_em prescription documents as neglected are below the noise floor there.
"""

import numpy as np

from vf.core import probe, scaling
from vf.core.ctx import Result

ID = "C51"
LEVEL = "exploration"
TECHNIQUE = "exhaustive enumeration of (order, scheme, ratio, method, path) through the real runner at the moment seam; bitwise oracle at xi=1, scaling-exponent oracle otherwise"
LEVEL_TEXT = (
    "for every order (QCD 1-4, QED x QCD up to (3,2) running/fixed), scheme, ratio and channel the residual to the central operator is "
    "computed on a 6-point coupling ladder; its local exponent in the asymptotic window must reach the perturbative order"
)
LEVEL_NOTE = "moment-probe seam (N = 2, 3.5, 6); lambda ladder 2^-3..2^-8; QED axis probed with negligible alpha_em; one threshold only in thorough"
FLOOR_NONTRIVIAL = 20

MOMENTS = [2.0, 3.5, 6.0]
PID = probe.FLAVOR_PIDS
LAMBDAS = [2.0**-i for i in range(3, 9)]


def _channels(M):
    u, ub, d = PID.index(2), PID.index(-2), PID.index(1)
    return {
        "full": M,
        "ns-": np.array([M[u, u] - M[u, ub]]),
        "ns+": np.array([(M[u, u] + M[u, ub]) - (M[d, u] + M[d, ub])]),
    }


def _cfg(case, sv, xif, lam):
    qed = case["order"][1] > 0
    c = dict(
        order=case["order"],
        method=case["method"],
        masses=[1.0, 4.5, 100.0],
        ratios=[1.0, "inf", "inf"] if case["path"] == "ffns" else [1.0, 1.0, "inf"],
        ref=[10.0, 4] if case["path"] == "ffns" else [3.0, 4],
        alphas=0.35 * lam,
        alphaem=1e-10 if qed else 0.0075,
        em_running=case.get("em_running", False),
        init=[5.0, 4] if case["path"] == "ffns" else [3.0, 4],
        mugrid=[[50.0, 4]] if case["path"] == "ffns" else [[20.0, 5]],
        sv=sv,
        xif=xif,
        # the iterated QED solution has a discretisation error ~ a_s^2/iterations^2 that differs between the
        # central and the varied run: enough steps to keep it below the a_s^n residual on the ladder
        iterations=case.get("iterations", ({1: 8, 2: 32, 3: 256}.get(case["order"][0], 8) if qed else 8)),
    )
    c.update(case.get("extra", {}))
    return c


def _solve(case, sv, xif, lam):
    out = probe.moment_solve(_cfg(case, sv, xif, lam), MOMENTS)
    (ep, m), = out.items()
    return m


def evaluate(case):
    res = Result()
    n = case["order"][0]
    sv = case["sv"]
    where = f"order={case['order']} sv={sv} xif2={case['xif2']} method={case['method']} path={case['path']} em_running={case.get('em_running', False)}"
    cls = f"sv={sv}/qcd={n},qed={case['order'][1]},run={int(case.get('em_running', False))}/{case['path']}"
    try:
        if case["xif2"] == 1.0:
            lam = 1.0 / 8
            c = _solve(case, None, 1.0, lam)
            v = _solve(case, sv, 1.0, lam)
            if c.tobytes() != v.tobytes():
                d = float(np.abs(c - v).max())
                res.fail(f"xi=1/not-identical/{cls}", f"{where}: scheme with unit ratio differs from the unvaried operator (max abs diff {d:.3e})")
            res.outcome = "xi=1:identical"
            res.info = {"max_diff_xi1": float(np.abs(c - v).max())}
            return res
        xif = case["xif2"] ** 0.5
        resid = {k: [] for k in ("full", "ns-", "ns+")}
        for lam in LAMBDAS:
            c = _solve(case, None, 1.0, lam)
            v = _solve(case, sv, xif, lam)
            for k in resid:
                r = 0.0
                for j in range(len(MOMENTS)):
                    a, b = _channels(c[j])[k], _channels(v[j])[k]
                    r = max(r, float(np.abs(a - b).max() / np.abs(a).max()))
                resid[k].append(r)
    except (NotImplementedError, ValueError) as e:
        res.outcome = f"refused:{str(e)[:40]}"
        res.nontrivial = False
        return res
    except Exception as e:  # noqa
        res.fail(f"solve/crash/{type(e).__name__}/{cls}", f"{where}: {type(e).__name__}: {str(e)[:200]}")
        return res
    floor = 1e-13
    info = {}
    allzero = True
    for k, rr in resid.items():
        ok, inf = scaling.judge(rr, n, floor=floor)
        info[k] = inf
        if any(r > floor for r in rr):
            allzero = False
        if not ok:
            res.fail(f"exponent/{cls}", f"{where} channel {k}: residual to the central operator does not vanish like a_s^{n}: {inf}")
        if "last_two" in inf:
            info[f"max_deficit_{k}"] = max(0.0, n - min(inf["last_two"]))
    res.info = {"max_deficit": max([v for kk, v in info.items() if kk.startswith("max_deficit_")] or [0.0]), "detail": info}
    res.outcome = f"{sv}:n={n}:{'does-nothing' if allzero else 'varies'}"
    res.nontrivial = not allzero
    return res


def run(ctx):
    cases = []
    qcd_orders = [[n, 0] for n in (1, 2, 3, 4)]
    qed_orders = [[1, 1], [2, 1], [2, 2], [3, 1]] + ([[3, 2], [1, 2]] if ctx.thorough() else [])
    xif2s = [0.25, 4.0] if not ctx.thorough() else [0.25, 0.5, 2.0, 4.0]
    for sv in ("expanded", "exponentiated"):
        for order in qcd_orders:
            # iterate-exact at N3LO: its discretisation error (~a_s^3 / iterations^2, different for the central and the varied
            # run) hides the a_s^4 residual on any affordable number of iterations: judged with the truncated method only
            methods = ["truncated", "iterate-exact"] if order[0] <= 3 else ["truncated"]
            for m in methods:
                cases.append(dict(order=order, sv=sv, xif2=1.0, method=m, path="ffns"))
                for x2 in xif2s:
                    cases.append(dict(order=order, sv=sv, xif2=x2, method=m, path="ffns"))
        for order in qed_orders:
            for run_ in (False, True):
                cases.append(dict(order=order, sv=sv, xif2=1.0, method="iterate-exact", path="ffns", em_running=run_))
                for x2 in xif2s:
                    cases.append(dict(order=order, sv=sv, xif2=x2, method="iterate-exact", path="ffns", em_running=run_))
        if ctx.thorough():
            for order in ([1, 0], [2, 0], [3, 0]):
                for x2 in xif2s + [1.0]:
                    cases.append(dict(order=order, sv=sv, xif2=x2, method="truncated", path="wall"))
            for order in ([2, 0], [3, 0]):
                for x2 in (0.25, 4.0):
                    cases.append(dict(order=order, sv=sv, xif2=x2, method="truncated", path="ffns", extra=dict(polarized=True)))
                    cases.append(dict(order=order, sv=sv, xif2=x2, method="truncated", path="ffns", extra=dict(time_like=True)))
    results = ctx.run_cases(cases, evaluate, chunksize=1)
    nothing = sorted({f"{c['order']}/{c['sv']}" for c, r in results if r[0] and "does-nothing" in r[0]})
    ctx.extra["configurations_where_the_scheme_changes_nothing"] = nothing
    ctx.rule = (
        f"schemes expanded/exponentiated x QCD orders 1-4 (2 methods) and QED x QCD orders {qed_orders} (alpha_em fixed and running) x "
        f"xi^2 in {xif2s} plus xi=1 (bitwise), fixed-flavour evolution 5 -> 50 GeV"
        + (" + one threshold crossing + polarised/time-like" if ctx.thorough() else "")
        + "; each case = one configuration with its 6-step coupling ladder; non-trivial = the scheme changes the operator"
    )
    ctx.assumptions += [
        "asymptotic-window rule: fails only if the last two local exponents are both below n-0.25 and agree to 0.15 (or are a full unit short)",
        "QED cards use alpha_em = 1e-10: only the a_s axis of the QED code path is judged",
    ]
