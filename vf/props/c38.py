"""C38 failed or interrupted runs never leave a corrupt or partial archive (X-fault).

For each scenario a recording pass lists the dynamic sequence of intercepted effects (file
writes, array saves, compression, YAML dumps, tar members, computation steps, user code points).
Then the scenario is re-run once per effect index with a failure injected at that effect (and,
for byte writes, a torn variant: half of the bytes reach the file). Thorough adds all ordered
pairs (i, j > i) whose second fault hits the error path / the follow-up run.
Oracle: new EKO -> target path absent; edited EKO -> previous complete content; then an
un-faulted run on the same path succeeds and equals the fault-free result.
"""

import os
import shutil
import pathlib

import numpy as np

from vf.core import cards, effects
from vf.core.ctx import Result, HarnessError

ID = "C38"
LEVEL = "fault_enumeration"
TECHNIQUE = "exhaustive single-fault (thorough: pair) injection at every intercepted effect of the real solve / edit / product write paths, incl. torn writes"
LEVEL_TEXT = (
    "every intercepted effect of a small threshold-crossing solve, of an edit session and of an EKO "
    "product is failed one at a time (torn variants for byte writes; pairs in thorough); after each, the "
    "archive path is absent or holds its previous content and a clean re-run succeeds and reproduces the fault-free result"
)
LEVEL_NOTE = (
    "faults are Python exceptions raised at the intercepted sites, or the death of the process there (os._exit); no power loss; sites: "
    "Path.write_text/mkdir/unlink, open-for-write+write, np.save/savez, lz4 compress, yaml dump, tarfile open/addfile, "
    "copytree, os.replace, mkdtemp, parts.evolve/match, operators.join/retrieve, recipes.create, user code points"
)
FLOOR_NONTRIVIAL = 20

SOLVE_CFG = dict(order=[1, 0], xgrid=[0.2, 0.6, 1.0], init=[4.0, 4], mugrid=[[6.0, 5]], method="truncated")
SCENARIOS = ["solve", "edit", "product_new", "product_inplace"]


def _ops(path):
    return cards.read_ops(path)


def _eq_ops(a, b):
    if sorted(a) != sorted(b):
        return f"keys {sorted(a)} vs {sorted(b)}"
    for k in a:
        for x, y in zip(a[k], b[k]):
            if (x is None) != (y is None):
                return f"error presence differs at {k}"
            if x is not None and x.tobytes() != y.tobytes():
                return f"array differs at {k}"
    return None


def _arr(seed, with_err=True):
    a = np.cos(np.arange(14 * 3 * 14 * 3, dtype=float) * (seed + 1) * 0.013).reshape(14, 3, 14, 3)
    return a, (np.abs(a) * 1e-3 if with_err else None)


def _mk_base(path, eps, init=(4.0, 4), seed0=0):
    """An archive with deterministic operators at the given evolution points."""
    from eko.io.items import Operator
    from eko.io.struct import EKO

    th, op = cards.build(dict(SOLVE_CFG, init=list(init), mugrid=[[ep[0] ** 0.5, ep[1]] for ep in eps]))
    with EKO.create(path) as b:
        e = b.load_cards(th, op).build()
        for i, ep in enumerate(eps):
            a, err = _arr(seed0 + i)
            e[ep] = Operator(a, err)


EP_A, EP_B, EP_C = (36.0, 5), (49.0, 5), (64.0, 5)


class Scenario:
    """prepare(dir) -> state ; run(state, inj) ; check_after_fault(state) ; rerun_clean(state) -> error or None."""

    def __init__(self, name, d):
        self.name = name
        self.d = pathlib.Path(d)
        self.d.mkdir(parents=True, exist_ok=True)
        self.target = self.d / "target.tar"
        self.kind = "new" if name in ("solve", "product_new") else "edit"

    # ---- setup (no injector active)
    def prepare(self):
        if self.name == "edit":
            _mk_base(self.target, [EP_A, EP_B])
        elif self.name in ("product_new", "product_inplace"):
            self.ini = self.d / "ini.tar"
            self.fin = self.d / "fin.tar"
            _mk_base(self.ini if self.name == "product_new" else self.target, [EP_A], init=(4.0, 4), seed0=0)
            _mk_base(self.fin, [EP_B, EP_C], init=(6.0, 5), seed0=5)
        self.before = _ops(self.target) if self.target.exists() else None
        self.before_bytes = self.target.read_bytes() if self.target.exists() else None

    def attach(self):
        """In the child process: paths of an already prepared scenario directory."""
        self.ini = self.d / "ini.tar"
        self.fin = self.d / "fin.tar"

    # ---- the operation under test
    def run(self, inj):
        from eko.io.items import Operator
        from eko.io.struct import EKO

        if self.name == "solve":
            import eko

            th, op = cards.build(SOLVE_CFG)
            eko.solve(th, op, self.target)
        elif self.name == "edit":
            with EKO.edit(self.target) as e:
                a, err = _arr(7)
                e[EP_C] = Operator(a, err)
                inj.user_point("user-code-1")
                a, err = _arr(8, with_err=False)
                e[EP_A] = Operator(a, err)
                inj.user_point("user-code-2")
        elif self.name == "product_new":
            from ekobox import utils

            with EKO.read(self.ini) as ei:
                with EKO.read(self.fin) as ef:
                    utils.ekos_product(ei, ef, path=self.target)
        elif self.name == "product_inplace":
            from ekobox import utils

            with EKO.edit(self.target) as ei:
                with EKO.read(self.fin) as ef:
                    utils.ekos_product(ei, ef)
                    inj.user_point("user-code-after-product")

    # ---- oracle
    def check_after_fault(self):
        if self.kind == "new":
            if self.target.exists():
                try:
                    ops = _ops(self.target)
                    what = f"a readable archive with points {sorted(ops)}"
                except Exception as e:  # noqa
                    what = f"an unreadable archive ({type(e).__name__}: {str(e)[:80]})"
                return "exists", f"target path exists after the failed run and holds {what}"
            return None
        if not self.target.exists():
            return "lost", "edited archive does not exist any more"
        try:
            now = _ops(self.target)
        except Exception as e:  # noqa
            return "corrupt", f"edited archive unreadable after the failed session: {type(e).__name__}: {str(e)[:120]}"
        d = _eq_ops(self.before, now)
        if d:
            return "changed", f"edited archive content changed although the session failed: {d}"
        return None


def _fresh_dir(tag):
    base = pathlib.Path(os.environ.get("VERIF_SCRATCH_DIR", "/verif/.scratch/adhoc"))
    d = base / f"c38-{tag}-{os.getpid()}"
    shutil.rmtree(d, ignore_errors=True)
    return d


_REF = {}


def _reference(name):
    """Fault-free run: effect log and resulting content."""
    if name in _REF:
        return _REF[name]
    d = _fresh_dir("ref-" + name)
    try:
        sc = Scenario(name, d)
        sc.prepare()
        with effects.Injector() as inj:
            sc.run(inj)
        _REF[name] = (list(inj.log), _ops(sc.target))
        return _REF[name]
    finally:
        shutil.rmtree(d, ignore_errors=True)


def evaluate(case):
    name = case["scenario"]
    plan = {int(k): v for k, v in case["plan"].items()}
    log_ref, ops_ref = _reference(name)
    d = _fresh_dir(f"{name}-" + "-".join(f"{k}{v[0]}" for k, v in sorted(plan.items())))
    res = Result()
    try:
        sc = Scenario(name, d)
        sc.prepare()
        if any(str(v).endswith("kill") for v in plan.values()):
            return _evaluate_kill(case, sc, name, plan, log_ref, ops_ref, res)
        exc = None
        with effects.Injector(plan) as inj:
            try:
                sc.run(inj)
            except BaseException as e:  # noqa
                exc = e
        first = min(plan)
        label = log_ref[first] if first < len(log_ref) else "?"
        # determinism of the harness: up to the first fault the effect sequence is the recorded one
        if inj.log[: first + 1] != log_ref[: first + 1]:
            raise HarnessError(f"effect sequence diverged before the fault: {inj.log[:first+1]} vs {log_ref[:first+1]}")
        if not inj.fired:
            raise HarnessError(f"planned fault {plan} never fired (log length {len(inj.log)})")
        kinds = "+".join(k for _, _, k in inj.fired)
        sig = f"{name}/fault@{label}/{kinds}" + ("" if len(plan) == 1 else "/pair")
        where = f"scenario={name} plan={plan} fired={inj.fired} exception={type(exc).__name__ if exc else None}"
        if exc is None:
            # the fault was absorbed: then the run claims success and must have produced the right archive
            try:
                d_ = _eq_ops(ops_ref, _ops(sc.target))
            except Exception as e:  # noqa
                d_ = f"unreadable: {e}"
            if d_:
                res.fail(sig + "/swallowed", f"{where}: failure swallowed and archive wrong: {d_}")
            res.outcome = f"{name}:absorbed"
            res.info = {"label": label}
            return res
        bad = sc.check_after_fault()
        if bad:
            res.fail(f"{sig}/{bad[0]}", f"{where}: {bad[1]}")
        else:
            # a clean re-run on the same path must succeed and give the fault-free result
            try:
                with effects.Injector() as inj2:
                    sc.run(inj2)
                d_ = _eq_ops(ops_ref, _ops(sc.target))
                if d_:
                    res.fail(sig + "/rerun-differs", f"{where}: clean re-run result differs from fault-free result: {d_}")
            except Exception as e:  # noqa
                res.fail(sig + "/rerun-fails", f"{where}: clean re-run on the same path failed: {type(e).__name__}: {str(e)[:200]}")
        res.outcome = f"{name}:{label}:{type(exc).__name__}"
        res.info = {"label": label}
        return res
    finally:
        shutil.rmtree(d, ignore_errors=True)
        # temp dirs left behind by interrupted sessions
        base = pathlib.Path(os.environ.get("VERIF_SCRATCH_DIR", "/nonexistent"))
        if base.exists():
            for p in base.glob("eko-*"):
                try:
                    if p.is_dir() and p.stat().st_uid == os.getuid():
                        import time

                        if time.time() - p.stat().st_mtime > 120:
                            shutil.rmtree(p, ignore_errors=True)
                except OSError:
                    pass


def _evaluate_kill(case, sc, name, plan, log_ref, ops_ref, res):
    """Crash (process death) at one effect: the scenario runs in a child that dies with os._exit at the planned point."""
    import json
    import subprocess
    import sys

    first = min(plan)
    label = log_ref[first] if first < len(log_ref) else "?"
    out = subprocess.run(
        [sys.executable, "-m", "vf.tools.crash_run", name, json.dumps({str(k): v for k, v in plan.items()}), str(sc.d)],
        capture_output=True, text=True, timeout=1200,
    )
    kind = plan[first]
    sig = f"{name}/crash@{label}/{kind}"
    where = f"scenario={name} plan={plan} child exit={out.returncode}"
    if out.returncode == 0:
        raise HarnessError(f"planned crash {plan} never reached: child completed")
    if out.returncode != 137:
        raise HarnessError(f"child failed unexpectedly ({out.returncode}): {out.stderr[-600:]}")
    bad = sc.check_after_fault()
    if bad:
        res.fail(f"{sig}/{bad[0]}", f"{where}: {bad[1]}")
    else:
        try:
            with effects.Injector() as inj2:
                sc.run(inj2)
            d_ = _eq_ops(ops_ref, _ops(sc.target))
            if d_:
                res.fail(sig + "/rerun-differs", f"{where}: clean re-run after the crash differs from the fault-free result: {d_}")
        except Exception as e:  # noqa
            res.fail(sig + "/rerun-fails", f"{where}: clean re-run on the same path after the crash failed: {type(e).__name__}: {str(e)[:200]}")
    res.outcome = f"{name}:{label}:killed"
    res.info = {"label": label}
    return res


WRITE_LABELS = ("file.write",)


def run(ctx):
    cases = []
    sizes = {}
    for name in SCENARIOS:
        log, _ = _reference(name)
        sizes[name] = len(log)
        for i, label in enumerate(log):
            cases.append({"scenario": name, "plan": {str(i): "raise"}})
            # an interruption that is a BaseException but not an Exception (KeyboardInterrupt)
            cases.append({"scenario": name, "plan": {str(i): "interrupt"}})
            if label in WRITE_LABELS:
                cases.append({"scenario": name, "plan": {str(i): "torn"}})
            # process death at the effect (no handler runs); all effects in thorough, the archive-writing tail in quick
            if ctx.thorough() or i >= len(log) - 14:
                cases.append({"scenario": name, "plan": {str(i): "kill"}})
                if label in WRITE_LABELS and ctx.thorough():
                    cases.append({"scenario": name, "plan": {str(i): "tornkill"}})
        if ctx.thorough():
            # pairs: second fault anywhere later in the (error-handling) continuation; the dynamic index
            # continues counting after the first fault, so j ranges over a window of later effects
            for i in range(len(log)):
                for j in range(i + 1, min(i + 9, len(log) + 8)):
                    cases.append({"scenario": name, "plan": {str(i): "raise", str(j): "raise"}})
    _REF.clear()  # workers recompute their own reference (also a determinism check)
    ctx.run_cases(cases, evaluate_pair_tolerant)
    ctx.extra["effects_per_scenario"] = sizes
    ctx.rule = (
        "one case per (scenario, effect index, fault kind): every intercepted effect of the fault-free run of "
        "each scenario (small LO solve across one threshold; edit session adding and overwriting operators with "
        "two user-code points; EKO product into a new path; in-place product) is failed once (an OSError/RuntimeError, and separately a KeyboardInterrupt), byte writes also torn; process death (os._exit in a child process, no handler runs) at the last 14 effects of each scenario (thorough: at every effect, also after half of a byte write); "
        "thorough adds pairs (i, i<j<=i+8) where the second fault lands in the error path; non-trivial = the fault fired and an exception propagated"
    )
    ctx.assumptions += [
        "failures are exceptions or process death at intercepted Python-level sites; not modelled: power loss (unsynced data), faults inside C extensions, post-commit cleanup (rmtree)",
    ]


def evaluate_pair_tolerant(case):
    """Pairs: the second index may never be reached (the error path is shorter); that is not vacuous."""
    try:
        return evaluate(case)
    except HarnessError as e:
        if len(case["plan"]) > 1 and "never fired" in str(e):
            return Result(outcome="pair-second-not-reached", nontrivial=False)
        raise
