"""C38 failed or interrupted runs never leave a corrupt or partial archive (X-fault).

For each scenario a recording pass lists the dynamic sequence of intercepted effects (file
writes, array saves, compression, YAML dumps, tar members and end-of-archive, unpacking, tree
copies / removals, computation steps, user code points).
Then the scenario is re-run once per effect index with a failure injected at that effect (and,
for byte writes, a torn variant: half of the bytes reach the file). Thorough adds all ordered
pairs (i, j > i) whose second fault hits the error path / the follow-up run.
Oracle: new EKO -> target path absent; edited EKO -> previous complete content, byte for byte;
then an un-faulted run on the same path succeeds and equals the fault-free result (operators,
cards, metadata, headers). A run refused because the path is taken leaves the path untouched.
"""

import os
import shutil
import pathlib
import tarfile

import numpy as np

from vf.core import cards, effects
from vf.core.ctx import Result, HarnessError

ID = "C38"
LEVEL = "fault_enumeration"
TECHNIQUE = "exhaustive single-fault (thorough: pair) injection at every intercepted effect of the real solve / edit / product write paths, incl. torn writes"
LEVEL_TEXT = (
    "every intercepted effect of a small threshold-crossing solve, of an edit session (operator stores and a metadata store) and of an EKO "
    "product is failed one at a time (torn variants for byte writes; pairs in thorough); after each, the "
    "archive path is absent or holds its previous bytes and a clean re-run succeeds and reproduces the fault-free result "
    "(operators, cards, metadata, headers); a solve refused on an existing path leaves its bytes alone"
)
LEVEL_NOTE = (
    "faults are Python exceptions raised at the intercepted sites, or the death of the process there (os._exit in a forked child); no power loss; sites: "
    "Path.write_text/mkdir/unlink/rmdir, open-for-write+write, np.save/savez, lz4 compress, yaml dump/safe_dump, tarfile open/addfile/close/extractall, "
    "copytree, rmtree, os.replace, mkdtemp, parts.evolve/match, operators.join/retrieve, recipes.create, user code points; "
    "a failure after the commit (os.replace onto the target) may leave the complete new content instead"
)
FLOOR_NONTRIVIAL = 20

SOLVE_CFG = dict(order=[1, 0], xgrid=[0.2, 0.6, 1.0], init=[4.0, 4], mugrid=[[6.0, 5]], method="truncated")
SCENARIOS = ["solve", "edit", "product_new", "product_inplace"]
# a run that fails by refusal: the one failure point of a new-EKO run at which the target path does hold something
REFUSED = "solve_over_existing"
# sites beyond the default list of the injector (numbering of the default list is untouched)
SITES_X = effects.SITES_EXT
# array steps that can fail by allocation (MemoryError: an Exception that is neither OSError nor RuntimeError)
ARRAY_LABELS = ("np.save", "np.savez", "lz4.compress", "parts.evolve", "parts.match", "operators.join")
EDIT_XGRID = [0.25, 0.6, 1.0]


def _injector(plan=None):
    return effects.Injector(plan, extra_sites=SITES_X)


def _ops(path):
    return cards.read_ops(path)


def _eq_ops(a, b):
    if sorted(a) != sorted(b):
        return f"keys {sorted(a)} vs {sorted(b)}"
    for k in a:
        for x, y in zip(a[k], b[k]):
            if (x is None) != (y is None):
                return f"error presence differs at {k}"
            if x is not None and x.tobytes() != y.tobytes():
                return f"array differs at {k}"
    return None


def _content(path):
    """Complete content of an archive: operators (arrays), member list, and the bytes of every other member
    (theory / operator cards, metadata, headers of recipes, parts and operators). Compressed arrays are compared
    as arrays: the .npz container carries a time stamp."""
    ops = _ops(path)
    texts = {}
    with tarfile.open(path) as tar:
        members = tar.getmembers()
        for m in members:
            if m.isfile() and not m.name.endswith(".lz4"):
                texts[m.name] = tar.extractfile(m).read()
        names = sorted(m.name for m in members)
    return {"ops": ops, "texts": texts, "names": names}


def _eq_content(a, b):
    d = _eq_ops(a["ops"], b["ops"])
    if d:
        return d
    if a["names"] != b["names"]:
        return f"archive members differ: {sorted(set(a['names']) ^ set(b['names']))}"
    for k in a["texts"]:
        if a["texts"][k] != b["texts"][k]:
            return f"member {k} differs: {a['texts'][k][:200]!r} vs {b['texts'][k][:200]!r}"
    return None


def _arr(seed, with_err=True):
    a = np.cos(np.arange(14 * 3 * 14 * 3, dtype=float) * (seed + 1) * 0.013).reshape(14, 3, 14, 3)
    return a, (np.abs(a) * 1e-3 if with_err else None)


def _mk_base(path, eps, init=(4.0, 4), seed0=0):
    """An archive with deterministic operators at the given evolution points."""
    from eko.io.items import Operator
    from eko.io.struct import EKO

    th, op = cards.build(dict(SOLVE_CFG, init=list(init), mugrid=[[ep[0] ** 0.5, ep[1]] for ep in eps]))
    with EKO.create(path) as b:
        e = b.load_cards(th, op).build()
        for i, ep in enumerate(eps):
            a, err = _arr(seed0 + i)
            e[ep] = Operator(a, err)


EP_A, EP_B, EP_C = (36.0, 5), (49.0, 5), (64.0, 5)

_TPL = {}


def _template(name):
    """The prepared files of a scenario (made once per process by real sessions; every case gets its own copy)."""
    if name in _TPL:
        return _TPL[name]
    d = _fresh_dir("tpl-" + name)
    d.mkdir(parents=True, exist_ok=True)
    try:
        target, ini, fin = d / "target.tar", d / "ini.tar", d / "fin.tar"
        if name == "edit":
            _mk_base(target, [EP_A, EP_B])
        elif name == REFUSED:
            _mk_base(target, [EP_A])
        elif name in ("product_new", "product_inplace"):
            _mk_base(ini if name == "product_new" else target, [EP_A], init=(4.0, 4), seed0=0)
            _mk_base(fin, [EP_B, EP_C], init=(6.0, 5), seed0=5)
        files = {p.name: p.read_bytes() for p in (target, ini, fin) if p.exists()}
        before = _content(target) if target.exists() else None
        _TPL[name] = (files, before)
        return _TPL[name]
    finally:
        shutil.rmtree(d, ignore_errors=True)


class Scenario:
    """prepare(dir) -> state ; run(state, inj) ; check_after_fault(state) ; rerun_clean(state) -> error or None."""

    def __init__(self, name, d):
        self.name = name
        self.d = pathlib.Path(d)
        self.d.mkdir(parents=True, exist_ok=True)
        self.target = self.d / "target.tar"
        self.kind = "new" if name in ("solve", "product_new") else "edit"

    # ---- setup (no injector active)
    def prepare(self):
        files, self.before = _template(self.name)
        for fname, data in files.items():
            (self.d / fname).write_bytes(data)
        self.ini = self.d / "ini.tar"
        self.fin = self.d / "fin.tar"
        self.before_bytes = files.get("target.tar")

    def attach(self):
        """In the child process: paths of an already prepared scenario directory."""
        self.ini = self.d / "ini.tar"
        self.fin = self.d / "fin.tar"

    # ---- the operation under test
    def run(self, inj):
        from eko.io.items import Operator
        from eko.io.struct import EKO

        if self.name in ("solve", REFUSED):
            import eko

            th, op = cards.build(SOLVE_CFG)
            eko.solve(th, op, self.target)
        elif self.name == "edit":
            from eko.interpolation import XGrid

            with EKO.edit(self.target) as e:
                a, err = _arr(7)
                e[EP_C] = Operator(a, err)
                inj.user_point("user-code-1")
                # a metadata store inside the session (xgrid setter -> EKO.update -> Metadata.update)
                e.xgrid = XGrid(EDIT_XGRID)
                inj.user_point("user-code-after-xgrid")
                a, err = _arr(8, with_err=False)
                e[EP_A] = Operator(a, err)
                inj.user_point("user-code-2")
        elif self.name == "product_new":
            from ekobox import utils

            with EKO.read(self.ini) as ei:
                with EKO.read(self.fin) as ef:
                    utils.ekos_product(ei, ef, path=self.target)
        elif self.name == "product_inplace":
            from ekobox import utils

            with EKO.edit(self.target) as ei:
                with EKO.read(self.fin) as ef:
                    utils.ekos_product(ei, ef)
                    inj.user_point("user-code-after-product")

    # ---- oracle
    def check_after_fault(self):
        if self.kind == "new":
            if self.target.exists():
                try:
                    ops = _ops(self.target)
                    what = f"a readable archive with points {sorted(ops)}"
                except Exception as e:  # noqa
                    what = f"an unreadable archive ({type(e).__name__}: {str(e)[:80]})"
                return "exists", f"target path exists after the failed run and holds {what}"
            return None
        if not self.target.exists():
            return "lost", "edited archive does not exist any more"
        try:
            now = _content(self.target)
        except Exception as e:  # noqa
            return "corrupt", f"edited archive unreadable after the failed session: {type(e).__name__}: {str(e)[:120]}"
        d = _eq_content(self.before, now)
        if d:
            return "changed", f"edited archive content changed although the session failed: {d}"
        # write-aside + replace: a failed session must not have touched the file at all
        if self.target.read_bytes() != self.before_bytes:
            return "changed-bytes", "edited archive holds the previous content but not the previous bytes: the failed session rewrote the file"
        return None

    def committed(self, ref):
        """After a failure behind the commit point: does the target hold the complete fault-free result?"""
        if not self.target.exists():
            return False
        try:
            return _eq_content(ref, _content(self.target)) is None
        except Exception:  # noqa
            return False


def _fresh_dir(tag):
    base = pathlib.Path(os.environ.get("VERIF_SCRATCH_DIR", "/verif/.scratch/adhoc"))
    d = base / f"c38-{tag}-{os.getpid()}"
    shutil.rmtree(d, ignore_errors=True)
    return d


_REF = {}


def _reference(name):
    """Fault-free run: effect log and resulting content."""
    if name in _REF:
        return _REF[name]
    d = _fresh_dir("ref-" + name)
    try:
        sc = Scenario(name, d)
        sc.prepare()
        refused = None
        with _injector() as inj:
            try:
                sc.run(inj)
            except Exception as e:  # noqa
                if name != REFUSED:
                    raise
                refused = e
        # a run on a path that holds an archive is refused by the tree as it is (no result: None); a tree that allows
        # overwriting gives a result, and then every effect of that run is enumerated like those of the other scenarios
        _REF[name] = (list(inj.log), None if refused is not None else _content(sc.target))
        return _REF[name]
    finally:
        shutil.rmtree(d, ignore_errors=True)


def _commit_index(log_ref):
    """Index of the effect that puts the result in place (the last os.replace): later effects are clean-up."""
    return max([i for i, label in enumerate(log_ref) if label == "os.replace"], default=len(log_ref))


def _after_failure(sc, name, sig, where, first, log_ref, ref, res, what="failed run"):
    """Oracle after a failed / killed run: untouched target, then a clean re-run reproduces the fault-free result.

    Behind the commit point (clean-up of the working directory after os.replace) the statement's two alternatives are
    extended by the third possible honest state: the complete new content."""
    post = first > _commit_index(log_ref)
    if post and sc.committed(ref):
        res.info["post_commit"] = True
        if sc.kind == "new":
            return  # complete result in place; a new run on this path is refused by design (see REFUSED)
        bad = None
    else:
        bad = sc.check_after_fault()
    if bad:
        res.fail(f"{sig}/{bad[0]}", f"{where}: {bad[1]}")
        return
    if ref is None:
        return  # the fault-free run on this path is itself a refusal (decided by the case without fault)
    # a clean re-run on the same path must succeed and give the fault-free result
    try:
        with _injector() as inj2:
            sc.run(inj2)
        d_ = _eq_content(ref, _content(sc.target))
        if d_:
            res.fail(sig + "/rerun-differs", f"{where}: clean re-run after the {what} differs from the fault-free result: {d_}")
    except Exception as e:  # noqa
        res.fail(sig + "/rerun-fails", f"{where}: clean re-run on the same path after the {what} failed: {type(e).__name__}: {str(e)[:200]}")


def _evaluate_no_fault(sc, name, log_ref, ref, res):
    """solve() on a path that holds an archive, no fault injected: a refusal must leave the bytes alone; a tree that
    overwrites instead claims success and must then hold the complete result of a solve."""
    exc = None
    with _injector() as inj:
        try:
            sc.run(inj)
        except BaseException as e:  # noqa
            exc = e
    if inj.log != log_ref or (exc is None) != (ref is not None):
        raise HarnessError(f"fault-free run not reproducible: {inj.log} / {type(exc).__name__} vs {log_ref} / {'result' if ref is not None else 'refused'}")
    sig = f"{name}/no-fault"
    where = f"scenario={name} no fault, observed={type(exc).__name__ if exc is not None else 'no error'}"
    if exc is not None:
        bad = sc.check_after_fault()
        if bad:
            res.fail(f"{sig}/{bad[0]}", f"{where}: {bad[1]}")
        res.outcome = f"{name}:refused:{type(exc).__name__}"
    else:
        try:
            d_ = _eq_content(_reference("solve")[1], _content(sc.target))
        except Exception as e:  # noqa
            d_ = f"unreadable: {type(e).__name__}: {str(e)[:120]}"
        if d_:
            res.fail(sig + "/overwrite-differs", f"{where}: the run overwrote the archive and the result is not that of a solve on a free path: {d_}")
        res.outcome = f"{name}:overwritten"
    res.info = {"label": "none"}
    return res


def evaluate(case):
    name = case["scenario"]
    plan = {int(k): v for k, v in case["plan"].items()}
    d = _fresh_dir(f"{name}-" + "-".join(f"{k}{v[0]}{len(v)}" for k, v in sorted(plan.items())))
    res = Result()
    import tempfile

    tmp_before = tempfile.tempdir
    try:
        sc = Scenario(name, d)
        sc.prepare()
        # working directories of the sessions of this case live (and, when a failed session leaves them behind, die) with the case
        (d / "tmp").mkdir()
        tempfile.tempdir = str(d / "tmp")
        log_ref, ref = _reference(name)
        if not plan:
            return _evaluate_no_fault(sc, name, log_ref, ref, res)
        if any(str(v).endswith("kill") for v in plan.values()):
            return _evaluate_kill(case, sc, name, plan, log_ref, ref, res)
        exc = None
        with _injector(plan) as inj:
            try:
                sc.run(inj)
            except BaseException as e:  # noqa
                exc = e
        first = min(plan)
        label = log_ref[first] if first < len(log_ref) else "?"
        # determinism of the harness: up to the first fault the effect sequence is the recorded one
        if inj.log[: first + 1] != log_ref[: first + 1]:
            raise HarnessError(f"effect sequence diverged before the fault: {inj.log[:first+1]} vs {log_ref[:first+1]}")
        if not inj.fired:
            raise HarnessError(f"planned fault {plan} never fired (log length {len(inj.log)})")
        kinds = "+".join(k for _, _, k in inj.fired)
        sig = f"{name}/fault@{label}/{kinds}" + ("" if len(plan) == 1 else "/pair")
        where = f"scenario={name} plan={plan} fired={inj.fired} exception={type(exc).__name__ if exc else None}"
        res.info = {"label": label}
        if exc is None:
            # the fault was absorbed: then the run claims success and must have produced the right archive
            try:
                d_ = _eq_content(ref, _content(sc.target))
            except Exception as e:  # noqa
                d_ = f"unreadable: {e}"
            if d_:
                res.fail(sig + "/swallowed", f"{where}: failure swallowed and archive wrong: {d_}")
            res.outcome = f"{name}:absorbed"
            return res
        _after_failure(sc, name, sig, where, first, log_ref, ref, res)
        res.outcome = f"{name}:{label}:{type(exc).__name__}" + (":post-commit" if res.info.get("post_commit") else "")
        return res
    finally:
        tempfile.tempdir = tmp_before
        shutil.rmtree(d, ignore_errors=True)


def _run_child(sc, plan):
    """Run the scenario with the plan in a forked child that dies by os._exit at the planned effect (no handler, no
    finaliser runs); returns (exit status, error text). Same as `python -m vf.tools.crash_run` without the start-up of
    a new interpreter. 137 = killed at the planned effect, 0 = scenario completed, 3 = exception."""
    errfile = sc.d / "child.err"
    pid = os.fork()
    if pid == 0:
        code = 3
        try:
            try:
                with _injector(plan) as inj:
                    sc.run(inj)
                code = 0
            except BaseException:  # noqa
                import traceback

                try:
                    errfile.write_text(traceback.format_exc())
                except Exception:  # noqa
                    pass
        finally:
            os._exit(code)
    _, status = os.waitpid(pid, 0)
    code = os.waitstatus_to_exitcode(status)
    err = errfile.read_text() if errfile.exists() else ""
    errfile.unlink(missing_ok=True)
    return code, err


def _evaluate_kill(case, sc, name, plan, log_ref, ref, res):
    """Crash (process death) at one effect: the scenario runs in a child that dies with os._exit at the planned point."""
    first = min(plan)
    label = log_ref[first] if first < len(log_ref) else "?"
    code, err = _run_child(sc, plan)
    kind = plan[first]
    sig = f"{name}/crash@{label}/{kind}"
    where = f"scenario={name} plan={plan} child exit={code}"
    if code == 0:
        raise HarnessError(f"planned crash {plan} never reached: child completed")
    if code != 137:
        raise HarnessError(f"child failed unexpectedly ({code}): {err[-600:]}")
    res.info = {"label": label}
    _after_failure(sc, name, sig, where, first, log_ref, ref, res, what="crash")
    res.outcome = f"{name}:{label}:killed" + (":post-commit" if res.info.get("post_commit") else "")
    return res


WRITE_LABELS = ("file.write",)
KILL_TAIL = 20


def run(ctx):
    cases = []
    sizes = {}
    for name in SCENARIOS + [REFUSED]:
        _template(name)
        log, _ = _reference(name)
        sizes[name] = len(log)
        for i, label in enumerate(log):
            cases.append({"scenario": name, "plan": {str(i): "raise"}})
            # an interruption that is a BaseException but not an Exception (KeyboardInterrupt)
            cases.append({"scenario": name, "plan": {str(i): "interrupt"}})
            if label in WRITE_LABELS:
                cases.append({"scenario": name, "plan": {str(i): "torn"}})
            if label in ARRAY_LABELS:
                cases.append({"scenario": name, "plan": {str(i): "memory"}})
            # process death at the effect (no handler runs); all effects in thorough, the archive-writing tail in quick
            if ctx.thorough() or i >= len(log) - KILL_TAIL:
                cases.append({"scenario": name, "plan": {str(i): "kill"}})
                if label in WRITE_LABELS and ctx.thorough():
                    cases.append({"scenario": name, "plan": {str(i): "tornkill"}})
        if ctx.thorough():
            # pairs: second fault anywhere later in the (error-handling) continuation; the dynamic index
            # continues counting after the first fault, so j ranges over a window of later effects
            for i in range(len(log)):
                for j in range(i + 1, min(i + 9, len(log) + 8)):
                    cases.append({"scenario": name, "plan": {str(i): "raise", str(j): "raise"}})
    # solve on a path that holds an archive: its effects (as the tree stands: the one that precedes the refusal) are
    # enumerated above; plus the run without any fault
    cases.append({"scenario": REFUSED, "plan": {}})
    # the templates and the fault-free references are made here once and inherited by the forked workers; every case
    # still re-derives the effect sequence up to its fault and every clean re-run is compared with this reference
    ctx.run_cases(cases, evaluate_pair_tolerant)
    ctx.extra["effects_per_scenario"] = sizes
    ctx.rule = (
        "one case per (scenario, effect index, fault kind): every intercepted effect of the fault-free run of "
        "each scenario (small LO solve across one threshold; edit session adding and overwriting operators and storing a new xgrid "
        "in the metadata, with three user-code points; EKO product into a new path; in-place product) is failed once (an OSError/RuntimeError, "
        "and separately a KeyboardInterrupt; array steps also a MemoryError), byte writes also torn; process death (os._exit in a forked child, "
        f"no handler runs) at the last {KILL_TAIL} effects of each scenario (thorough: at every effect, also after half of a byte write); "
        "thorough adds pairs (i, i<j<=i+8) where the second fault lands in the error path; fifth scenario: a solve on a path that holds an archive "
        "(as the tree stands it is refused after one effect: that run without fault, and with the effect failed / interrupted / killed): "
        "bytes of the archive unchanged (were the run not refused, all its effects would be enumerated and its result compared with a solve on a free path); "
        "non-trivial = the fault fired and an exception propagated"
    )
    ctx.assumptions += [
        "failures are exceptions or process death at intercepted Python-level sites; not modelled: power loss (unsynced data), faults inside C extensions",
        "a failure behind the commit point (removal of the working directory after os.replace onto the target) may leave either the untouched target or the complete fault-free content; anything else fails",
    ]


def evaluate_pair_tolerant(case):
    """Pairs: the second index may never be reached (the error path is shorter); that is not vacuous."""
    try:
        return evaluate(case)
    except HarnessError as e:
        if len(case["plan"]) > 1 and "never fired" in str(e):
            return Result(outcome="pair-second-not-reached", nontrivial=False)
        raise
