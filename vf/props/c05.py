"""C05 evolved PDFs conserve total momentum and valence numbers (X-conf, S2 + S3).

(i) Moment seam (exact in Mellin space, through the real runner): N = 2 column sums of the
flavour-space evolution matrix are 1 for every active input parton (momentum); at N = 1 (singlet
skipped) the rows q - qbar reproduce q - qbar of the input (valence numbers) and, polarised, the
non-singlet plus combinations T3, T8 are unchanged (axial charges).
(ii) x space, no stubs: real eko.solve on 25-30 point log-lin grids; the Les Houches toy PDFs are evolved
through ekobox.apply.apply_grids (and apply_pdf with an lhapdf-like toy), which must agree with the plain
contraction of the stored operator; momentum and valence integrals of the interpolant before and after
evolution agree to 1 %.
Momentum is summed for every input parton (also heavy quarks not yet active: intrinsic matching entries);
axial charges T3, T8, T15, T24; QED with fixed and running alpha_em; scale variations; exact inversion.
"""

import numpy as np

from vf.core import cards, probe
from vf.core.ctx import Result

ID = "C05"
LEVEL = "exploration"
TECHNIQUE = "exhaustive enumeration of (order, method, path, scale ratio, kind) through the real runner: exact Mellin-moment sum rules + un-stubbed x-space solves applied to toy PDFs"
LEVEL_TEXT = (
    "the full product order 1-3 x 8 methods x fixed/up/down paths x scale ratios x unpolarised/polarised (+QED) is solved at the "
    "moment seam and the N=2 / N=1 sum rules checked exactly (all input partons, T3/T8/T15/T24, running alpha_em, scale variations, exact inversion); "
    "a handful of real x-space solves, applied through ekobox.apply.apply_grids / apply_pdf, confirm the statement as written (1 %)"
)
LEVEL_NOTE = "moment seam removes inversion/interpolation error; x-space part limited to a few cards (interpreted mode cost); toy PDFs fixed (Les Houches)"
FLOOR_NONTRIVIAL = 100

PID = probe.FLAVOR_PIDS
M = [2.0, 4.5, 100.0]
PATHS = {
    "ffns3": ([1.3, 3], [1.3, 3]),
    "ffns4": ([3.0, 4], [3.0, 4]),
    "ffns5": ([10.0, 5], [10.0, 5]),
    "up34": ([1.5, 3], [3.0, 4]),
    "up35": ([1.5, 3], [10.0, 5]),
    "up45": ([3.0, 4], [10.0, 5]),
    "down43": ([3.0, 4], [1.5, 3]),
    "down54": ([10.0, 5], [3.0, 4]),
}
FACTORS = [0.5, 2.0, 10.0]  # applied to the target scale of ffns paths (ratio of scales)
# non-singlet plus combinations whose first moments (axial charges) are conserved; a combination is checked when all
# its flavours are active at both ends of the path
AXIAL = {
    "T3": {2: 1, 1: -1},
    "T8": {2: 1, 1: 1, 3: -2},
    "T15": {2: 1, 1: 1, 3: 1, 4: -3},
    "T24": {2: 1, 1: 1, 3: 1, 4: 1, 5: -4},
}


def _cfg(case):
    init, target = PATHS[case["path"]]
    target = list(target)
    if case["path"].startswith("ffns"):
        nf = init[1]
        lo = M[nf - 4] if nf > 3 else 0.9
        hi = M[nf - 3] if nf < 6 else 1e9
        mu = init[0] * case["factor"]
        # keep the point inside the patch when it is meant to be a fixed-flavour path
        target = [mu, nf]
        ratios = cards.ffns_ratios(nf) if not (lo <= mu <= hi) else [1.0, 1.0, 1.0]
    else:
        ratios = [1.0, 1.0, 1.0]
    ref = [91.2, 5]
    if ratios != [1.0, 1.0, 1.0]:
        ref = [init[0], init[1]]
    c = dict(
        order=case["order"],
        method=case["method"],
        masses=M,
        ratios=ratios,
        ref=ref,
        alphas=0.118 if ref[0] > 50 else 0.25,
        init=list(init),
        mugrid=[target],
        iterations=6,
        max_order=[6, 0],
        inversion=case.get("inversion", "expanded"),
        polarized=case.get("polarized", False),
    )
    if case.get("sv"):
        c.update(sv=case["sv"], xif=case["xif"])
    if case.get("em_running"):
        c.update(em_running=True)
    return c


TOL_BEYOND_LO = {"momentum": 2e-6, "number": 2e-7, "axial": 6e-7}


def _tol(order, what):
    if order[0] == 1 and order[1] == 0:
        return 1e-11
    return TOL_BEYOND_LO[what]


def evaluate_moment(case, res):
    cfg = _cfg(case)
    qed = cfg["order"][1] > 0
    pol = cfg["polarized"]
    where = f"path={case['path']} factor={case.get('factor')} order={cfg['order']} method={cfg['method']} pol={pol}"
    cls = f"order={cfg['order'][0]},{cfg['order'][1]}/pol={int(pol)}/{case['path'].rstrip('345')}"
    nf_in = cfg["init"][1]
    # every input parton, including the heavy quarks that are not active at the initial scale: on an upward path they
    # enter through the intrinsic matching entries (A_HH, A_gH), elsewhere they are carried unchanged; either way the
    # momentum they bring in has to come out again
    active_in = [p for p in PID if (p != 22 or qed)]
    sv_tag = f"/sv={cfg['sv']}" if cfg.get("sv") else ""
    if cfg.get("em_running"):
        sv_tag += "/aem-running"
    worst = {}
    # ---- N = 2: momentum (unpolarised only)
    if not pol:
        out = probe.moment_solve(cfg, [2.0])
        (ep, m), = out.items()
        E = m[0]
        for p in active_in:
            i = PID.index(p)
            s = float(E[:, i].sum())
            key = "max_mom_dev" if (p == 21 or abs(p) <= nf_in or p == 22) else "max_mom_dev_heavy_input"
            if cfg["order"] == [1, 0]:
                key += "_lo"
            worst[key] = max(worst.get(key, 0.0), abs(s - 1.0))
            if not np.isfinite(s) or abs(s - 1.0) > _tol(cfg["order"], "momentum"):
                heavy = "" if (p == 21 or p == 22 or abs(p) <= nf_in) else "/heavy-input"
                res.fail(f"moment/N=2/momentum/{cls}{sv_tag}{heavy}", f"{where}: momentum carried by the products of input parton {p} is {s!r} (must be 1)")
                break
    # ---- N = 1: quark numbers / axial charges (non-singlet rows)
    out = probe.moment_solve(dict(cfg, skip_singlet=True), [1.0])
    (ep, m), = out.items()
    E = m[0]
    nf_out = cfg["mugrid"][0][1]
    if not pol:
        for q in range(1, 7):
            iq, iqb = PID.index(q), PID.index(-q)
            row = E[iq, :] - E[iqb, :]
            exp = np.zeros(14)
            exp[iq], exp[iqb] = 1.0, -1.0
            # inputs that are heavy and inactive at the start are carried unchanged: covered by exp as well
            dev = float(np.abs(row - exp).max())
            key = "max_val_dev" + ("_lo" if cfg["order"] == [1, 0] else "")
            worst[key] = max(worst.get(key, 0.0), dev)
            if not np.isfinite(dev) or dev > _tol(cfg["order"], "number"):
                res.fail(f"moment/N=1/valence/{cls}{sv_tag}", f"{where}: valence number of flavour {q}: row (q - qbar) = {np.round(row, 8).tolist()}")
                break
    else:
        nfl = min(nf_in, nf_out)
        for name, comb in AXIAL.items():
            if max(comb) > nfl:
                continue
            row = np.zeros(14)
            exp = np.zeros(14)
            for q, w in comb.items():
                row += w * (E[PID.index(q), :] + E[PID.index(-q), :])
                exp[PID.index(q)] += w
                exp[PID.index(-q)] += w
            # the singlet part of each q+ is skipped (zero) on both sides of the difference; the expectation has to
            # be projected the same way: subtract the flavour average
            dev = float(np.abs((row - exp)[[PID.index(p) for p in PID if p not in (21, 22)]]).max())
            key = "max_axial_dev" + ("_lo" if cfg["order"] == [1, 0] else "")
            worst[key] = max(worst.get(key, 0.0), dev)
            if not np.isfinite(dev) or dev > _tol(cfg["order"], "axial"):
                res.fail(f"moment/N=1/axial-{name}/{cls}{sv_tag}", f"{where}: first moment of {name} not conserved: row = {np.round(row, 8).tolist()}")
    res.info = worst
    res.outcome = f"moment:{case['path'].rstrip('345')}:pol={int(pol)}"


# ------------------------------------------------------------------ x space
def _toy_xf(x):
    """Les Houches toy PDFs, x f(x) for pids in flavour-basis order."""
    xuv = 5.107200 * x**0.8 * (1 - x) ** 3
    xdv = 3.064320 * x**0.8 * (1 - x) ** 4
    xg = 1.7 * x**-0.1 * (1 - x) ** 5
    xdb = 0.1939875 * x**-0.1 * (1 - x) ** 6
    xub = (1 - x) * xdb
    xs = 0.2 * (xub + xdb)
    out = {21: xg, 2: xuv + xub, -2: xub, 1: xdv + xdb, -1: xdb, 3: xs, -3: xs}
    return np.array([out.get(p, np.zeros_like(x)) for p in PID])


def _toy_pol(x):
    """A smooth polarised toy set (x Delta f)."""
    out = {2: 1.3 * x**0.7 * (1 - x) ** 3, -2: -0.1 * x**0.5 * (1 - x) ** 6, 1: -0.5 * x**0.7 * (1 - x) ** 4,
           -1: -0.15 * x**0.5 * (1 - x) ** 6, 3: -0.05 * x**0.5 * (1 - x) ** 7, -3: -0.05 * x**0.5 * (1 - x) ** 7,
           21: 1.5 * x**0.5 * (1 - x) ** 5}
    return np.array([out.get(p, np.zeros_like(x)) for p in PID])


def _moment_weights(xgrid, degree, N):
    """int x^(N-1) p_j(x) dx over [xmin, 1]."""
    from eko.interpolation import InterpolatorDispatcher, XGrid

    disp = InterpolatorDispatcher(XGrid(xgrid, log=True), degree, mode_N=False)
    g = np.asarray(xgrid)
    nodes, wts = np.polynomial.legendre.leggauss(24)
    W = np.zeros(len(g))
    for a, b in zip(g[:-1], g[1:]):
        la, lb = np.log(a), np.log(b)
        x = np.exp(0.5 * (lb - la) * nodes + 0.5 * (lb + la))
        jac = 0.5 * (lb - la) * wts * x
        for j, bf in enumerate(disp):
            vals = np.array([bf(xx) for xx in x])
            W[j] += float((vals * jac * x ** (N - 1.0)).sum())
    return W


def _weights(xgrid, degree):
    """W_j = int x p_j(x) dx and V_j = int p_j(x) dx over [xmin, 1] (Gauss-Legendre per cell in log x).

    The operator acts on f(x) (the documented convention: x f(x) divided by x), interpolated by sum_j f_j p_j(x).
    """
    from eko.interpolation import InterpolatorDispatcher, XGrid

    disp = InterpolatorDispatcher(XGrid(xgrid, log=True), degree, mode_N=False)
    g = np.asarray(xgrid)
    nodes, wts = np.polynomial.legendre.leggauss(24)
    W = np.zeros(len(g))
    V = np.zeros(len(g))
    for a, b in zip(g[:-1], g[1:]):
        la, lb = np.log(a), np.log(b)
        t = 0.5 * (lb - la) * nodes + 0.5 * (lb + la)
        x = np.exp(t)
        jac = 0.5 * (lb - la) * wts * x  # dx = x dt
        for j, bf in enumerate(disp):
            vals = np.array([bf(xx) for xx in x])
            W[j] += float((vals * jac * x).sum())
            V[j] += float((vals * jac).sum())
    return W, V


class _ToyLHA:
    """lhapdf-like object (xfxQ2 / hasFlavor) over a toy set given as x f(x) in flavour-basis order."""

    def __init__(self, xf):
        self.xf = xf
        self.calls = 0

    def hasFlavor(self, pid):
        return pid in (21, 1, -1, 2, -2, 3, -3)

    def xfxQ2(self, pid, x, q2):
        self.calls += 1
        return float(self.xf(np.array([x]))[PID.index(pid), 0])


def _apply(path, xgrid, f0, toy, cfg, res, where, tagc):
    """Evolve the input through ekobox.apply (the observation point of the property): apply_grids with two replicas
    and apply_pdf with an lhapdf-like toy; both must agree with the plain contraction of the stored operator.

    Returns (stored operator, evolved grid of replica 0 from apply_grids)."""
    from eko.io.struct import EKO
    from ekobox import apply as ekapply

    # second replica: a different, flavour-dependent rescaling and a tilt in x, so that a wrong replica / flavour / grid
    # axis cannot go unnoticed
    f0b = f0 * (1.0 + 0.1 * np.arange(len(PID)))[:, None] * (1.0 + np.asarray(xgrid))[None, :]
    inp = np.stack([f0, f0b])
    try:
        with EKO.read(path) as e:
            ops = {ep: (op.operator.copy(), None if op.error is None else op.error.copy()) for ep, op in e.items()}
            grids, errs = ekapply.apply_grids(e, inp)
            pdfs, _perr = ekapply.apply_pdf(e, _ToyLHA(toy))
            mu20 = float(e.mu20)
    except Exception as e:  # noqa
        import traceback

        tb = traceback.extract_tb(e.__traceback__)
        res.fail(f"xspace/apply/crash/{type(e).__name__}@{tb[-1].name if tb else '?'}", f"{where}: ekobox.apply raised {type(e).__name__}: {str(e)[:200]}")
        return None, None
    (ep, (op, err)), = ops.items()
    target = cfg["mugrid"][0]
    if list(grids) != [ep] or list(pdfs) != [ep] or abs(ep[0] - target[0] ** 2) > 1e-9 * target[0] ** 2 or ep[1] != target[1] or abs(mu20 - cfg["init"][0] ** 2) > 1e-9 * mu20:
        res.fail(f"xspace/apply_grids/evolution-points/{tagc}", f"{where}: apply_grids returned {list(grids)}, apply_pdf {list(pdfs)}, archive holds {ep}, card asks {target}, mu20={mu20}")
        return op, None
    ref = np.einsum("ajbk,rbk->raj", op, inp)
    g = np.asarray(grids[ep])
    scale = np.abs(ref).max(axis=(1, 2))
    if g.shape != ref.shape:
        res.fail(f"xspace/apply_grids/shape/{tagc}", f"{where}: apply_grids output shape {g.shape}, expected {ref.shape}")
        return op, None
    dev = float((np.abs(g - ref).max(axis=(1, 2)) / scale).max())
    res.info["max_apply_grids_contraction_dev"] = dev
    if not np.isfinite(dev) or dev > 1e-12:
        res.fail(f"xspace/apply_grids/contraction/{tagc}", f"{where}: apply_grids differs from the contraction sum_bk O[a,j,b,k] f[r,b,k] by {dev:.3e} (relative, worst replica)")
    if err is not None:
        eref = np.einsum("ajbk,rbk->raj", err, inp)
        ge = np.asarray(errs.get(ep)) if ep in errs else None
        edev = float(np.abs(ge - eref).max() / max(np.abs(eref).max(), 1e-300)) if ge is not None and ge.shape == eref.shape else float("inf")
        res.info["max_apply_grids_error_contraction_dev"] = edev
        if not np.isfinite(edev) or edev > 1e-12:
            res.fail(f"xspace/apply_grids/error-contraction/{tagc}", f"{where}: integration-error grids of apply_grids differ from the contraction of the stored error tensor by {edev:.3e}")
    # apply_pdf: input sampled as xf(x)/x on the archive's grid, output labelled by pid
    try:
        gp = np.array([np.asarray(pdfs[ep][pid]) for pid in PID])
        pdev = float(np.abs(gp - ref[0]).max() / scale[0]) if gp.shape == ref[0].shape else float("inf")
    except KeyError:
        pdev = float("inf")
    res.info["max_apply_pdf_dev"] = pdev
    if not np.isfinite(pdev) or pdev > 1e-12:
        res.fail(f"xspace/apply_pdf/convention/{tagc}", f"{where}: apply_pdf (input xf(x)/x from an lhapdf-like object, flavour basis) differs from the contraction with f(x) by {pdev:.3e}")
    return op, g[0]


def evaluate_xspace(case, res):
    from eko.interpolation import lambertgrid

    cfg = _cfg(case)
    n = case["npoints"]
    xgrid = lambertgrid(n, x_min=1e-5).tolist()
    # a grid may be given in any order (it is a set of points): the card gets it reversed, everything else is sorted
    cfg.update(xgrid=xgrid[::-1] if case.get("reversed_grid") else xgrid, degree=case["degree"], cores=case.get("cores", 1))
    pol = cfg["polarized"]
    where = f"path={case['path']} order={cfg['order']} method={cfg['method']} pol={pol} grid={n} degree={case['degree']}"
    tagc = f"order={cfg['order'][0]}/{case['path'].rstrip('345')}"
    x = np.array(xgrid)
    toy = _toy_pol if pol else _toy_xf
    f0 = toy(x) / x
    res.info = {}
    path = cards.scratch_path("c05x")
    try:
        cards.solve(cfg, path)
        op, f1 = _apply(path, xgrid, f0, toy, cfg, res, where, tagc)
    finally:
        try:
            path.unlink()
        except FileNotFoundError:
            pass
    if op is None:
        return
    if f1 is None:
        # the sum rules are still decided on the stored operator
        f1 = np.einsum("ajbk,bk->aj", op, f0)
    W, V = _weights(xgrid, case["degree"])
    info = res.info
    if not pol:
        m0 = float((f0 @ W).sum())
        m1 = float((f1 @ W).sum())
        info["max_rel_mom_x"] = abs(m1 - m0) / abs(m0)
        if not np.isfinite(m1) or abs(m1 - m0) > 0.01 * abs(m0):
            res.fail(f"xspace/momentum/order={cfg['order'][0]}/{case['path'].rstrip('345')}", f"{where}: total momentum {m0:.6f} -> {m1:.6f}")
        for q in (1, 2, 3):
            v0 = float((f0[PID.index(q)] - f0[PID.index(-q)]) @ V)
            v1 = float((f1[PID.index(q)] - f1[PID.index(-q)]) @ V)
            scale = max(abs(v0), 1.0)
            info["max_rel_val_x"] = max(info.get("max_rel_val_x", 0.0), abs(v1 - v0) / scale)
            if not np.isfinite(v1) or abs(v1 - v0) > 0.01 * scale:
                res.fail(f"xspace/valence/order={cfg['order'][0]}/{case['path'].rstrip('345')}", f"{where}: valence number of flavour {q}: {v0:.6f} -> {v1:.6f}")
    else:
        nfl = min(cfg["init"][1], cfg["mugrid"][0][1])
        for name, comb in AXIAL.items():
            if max(comb) > nfl:
                continue
            c0 = sum(w * float((f0[PID.index(q)] + f0[PID.index(-q)]) @ V) for q, w in comb.items())
            c1 = sum(w * float((f1[PID.index(q)] + f1[PID.index(-q)]) @ V) for q, w in comb.items())
            info["max_rel_axial_x"] = max(info.get("max_rel_axial_x", 0.0), abs(c1 - c0) / max(abs(c0), 1.0))
            if not np.isfinite(c1) or abs(c1 - c0) > 0.01 * max(abs(c0), 1.0):
                res.fail(f"xspace/axial-{name}/order={cfg['order'][0]}", f"{where}: first moment of {name}: {c0:.6f} -> {c1:.6f}")
    # ---- conformance of the moment probe (seam S2) with the un-stubbed x-space operator: the Mellin moments of the
    # evolved toy PDFs must be those predicted by the probe's moment-space matrices applied to the input moments
    if case.get("reversed_grid"):
        where += " (grid given in descending order)"
    pcfg = {k: v for k, v in cfg.items() if k not in ("xgrid", "degree", "cores")}
    NS = [2.0, 3.0]
    pm = probe.moment_solve(pcfg, NS)
    (pep, E), = pm.items()
    for k, N in enumerate(NS):
        WN = _moment_weights(xgrid, case["degree"], N)
        m_in = f0 @ WN
        m_out = f1 @ WN
        pred = E[k] @ m_in
        dev = float(np.abs(m_out - pred).max() / max(1e-12, np.abs(m_out).max()))
        info["max_probe_conformance_dev"] = max(info.get("max_probe_conformance_dev", 0.0), dev)
        if not np.isfinite(dev) or dev > 3e-2:
            res.fail(f"probe-conformance/N={N:g}/order={cfg['order'][0]}/{case['path'].rstrip('345')}",
                     f"{where}: N={N} moments of the x-space result differ from the moment-probe prediction by {dev:.3e} (relative to the largest moment)")
    res.info = info
    res.outcome = f"xspace:{case['path'].rstrip('345')}:pol={int(pol)}"


def evaluate(case):
    res = Result()
    try:
        if case["seam"] == "s2":
            evaluate_moment(case, res)
        else:
            evaluate_xspace(case, res)
    except (NotImplementedError, ValueError) as e:
        # every card of this lattice (QCD order 1-3 unpolarised/polarised space-like, QED with iterate-exact) is a supported
        # one: a refusal (or a ValueError out of a library call) leaves the sum rule undecided and is reported
        import traceback

        tb = traceback.extract_tb(e.__traceback__)
        res.outcome = f"refused:{str(e)[:50]}"
        res.nontrivial = False
        res.fail(f"solve/refused/{type(e).__name__}@{tb[-1].name if tb else '?'}/{case['seam']}", f"{case}: supported card not solved: {type(e).__name__}: {str(e)[:200]}")
    except Exception as e:  # noqa
        import traceback

        res.fail(f"solve/crash/{type(e).__name__}/{case['seam']}", f"{case}: {type(e).__name__}: {str(e)[:200]} {traceback.format_exc()[-300:]}")
    return res


def moment_cases(thorough):
    cases = []
    orders = [[1, 0], [2, 0], [3, 0]]
    for pol in (False, True):
        for order in orders:
            for method in cards.METHODS:
                for path in PATHS:
                    if path.startswith("ffns"):
                        for f in FACTORS:
                            cases.append(dict(seam="s2", order=order, method=method, path=path, factor=f, polarized=pol))
                    else:
                        if not thorough and method in ("perturbative-exact", "decompose-expanded", "iterate-expanded") and order[0] == 3:
                            continue
                        cases.append(dict(seam="s2", order=order, method=method, path=path, polarized=pol))
    for running in (False, True):
        for order in ([1, 1], [2, 1], [2, 2]):
            for path in ("ffns4", "up45", "down43"):
                c = dict(seam="s2", order=order, method="iterate-exact", path=path, factor=2.0)
                if running:
                    c["em_running"] = True
                cases.append(c)
    for pol in (False, True):
        for path in ("down43", "down54"):
            for order in ([2, 0], [3, 0]):
                c = dict(seam="s2", order=order, method="truncated", path=path, inversion="exact")
                if pol:
                    c["polarized"] = True
                cases.append(c)
    # scale variations: the anomalous dimensions / the operator are modified by terms proportional to ln(xif^2), which
    # must respect the same sum rules
    sv_paths = ["ffns4", "up45", "down54"] + (["ffns3", "up34", "up35", "down43"] if thorough else [])
    sv_methods = ["iterate-exact", "truncated"] if thorough else ["iterate-exact"]
    for pol in (False, True):
        for order in ([2, 0], [3, 0]):
            for path in sv_paths:
                for sv in ("exponentiated", "expanded"):
                    for xif in (0.5, 2.0):
                        for method in sv_methods:
                            if pol and not thorough and not (path == "up45" and xif == 2.0):
                                continue
                            c = dict(seam="s2", order=order, method=method, path=path, factor=2.0, sv=sv, xif=xif)
                            if pol:
                                c["polarized"] = True
                            cfg = _cfg(c)
                            if xif * min(cfg["init"][0], cfg["mugrid"][0][0]) < 1.0:
                                continue  # the varied scale would drop below 1 GeV: not in the perturbative range
                            cases.append(c)
    return cases


def run(ctx):
    cases = moment_cases(ctx.thorough())
    # x space
    xs = [
        dict(order=[1, 0], method="iterate-exact", path="up45", npoints=25, degree=3),
        dict(order=[2, 0], method="truncated", path="ffns4", factor=2.0, npoints=25, degree=3),
        dict(order=[1, 0], method="truncated", path="ffns4", factor=2.0, npoints=25, degree=3, reversed_grid=True),
        # the polarised clause as written (axial charges of the evolved toy set), also in the quick tier
        dict(order=[2, 0], method="truncated", path="ffns4", factor=2.0, npoints=25, degree=3, polarized=True),
    ]
    if ctx.thorough():
        xs += [
            dict(order=[3, 0], method="truncated", path="ffns4", factor=2.0, npoints=30, degree=4),
            dict(order=[2, 0], method="iterate-exact", path="up45", npoints=30, degree=4),
            dict(order=[2, 0], method="truncated", path="down54", npoints=30, degree=3),
            dict(order=[2, 0], method="truncated", path="ffns4", factor=2.0, npoints=30, degree=3, polarized=True),
            dict(order=[1, 0], method="truncated", path="ffns3", factor=10.0, npoints=40, degree=4),
            dict(order=[1, 0], method="truncated", path="ffns5", factor=0.5, npoints=30, degree=3),
        ]
    xcases = [dict(c, seam="s3") for c in xs]
    ctx.run_cases(xcases + cases, evaluate, chunksize=1)
    ctx.rule = (
        "moment seam: unpolarised and polarised x order 1-3 x 8 methods x 8 paths (fixed nf 3-5 with scale ratios 0.5/2/10, up 3->4, 3->5, 4->5, "
        "down 4->3, 5->4), momentum summed for every input parton (also the heavy quarks not yet active), axial charges T3, T8, T15, T24; QED (1,1),(2,1),(2,2) "
        "with fixed and running alpha_em; exact inversion unpolarised and polarised; scale variations (exponentiated/expanded, xif 0.5 and 2) at NLO/NNLO; "
        "x space: real solves on 25-40 point lambert grids (degree 3-4), the Les Houches toy PDFs evolved through ekobox.apply.apply_grids (2 replicas) and "
        "apply_pdf (lhapdf-like toy), both compared with the contraction of the stored operator; non-trivial = solved"
    )
    ctx.extra["traces_validated_against_impl"] = len(xcases)
    ctx.assumptions += [
        "probe conformance: for every x-space card the N = 2, 3 moments of the evolved toy PDFs agree with the moment-probe prediction to 3e-2 (the accuracy of a 25-point grid at N=2 is 4e-3..8e-3; a transposition or a wrong contour gives O(1))",
        "moment-seam tolerances: 1e-11 at LO; beyond LO 2e-6 (momentum), 2e-7 (valence numbers), 6e-7 (axial charges): the accuracy of the parametrised NLO/NNLO anomalous dimensions and matching elements (measured maxima in the evidence, >= 10x head-room)",
        "ekobox.apply: apply_grids / apply_pdf must reproduce sum_bk O[a,j,b,k] f[r,b,k] to 1e-12 (pure contraction, measured 0 .. 1e-15)",
        "no card of this lattice may be refused: a NotImplementedError/ValueError is reported (solve/refused/...)",
        "x-space integrals are those of the interpolant on [1e-5, 1], the same before and after evolution",
    ]
