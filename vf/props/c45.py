"""C45 LHAPDF export of evolved PDFs is self-consistent (X-num over cards, independent reader).

For every enumerated card a synthetic (or, for a few, really solved) EKO is handed to
`ekobox.evol_pdf.evolve_pdfs` with a stub `lhapdf` module; the written .info / .dat files are read
back by an independent text parser and compared with (a) the operators applied to the toy PDFs by
a plain tensordot, (b) the written grids themselves (ranges, flavours, members), (c) the coupling of
the last path segment as the solver builds it and, at LO, the closed-form running in mpmath;
finally the files are re-read with ekobox's own loader and re-dumped (text must be reproduced).
"""

import math
import os
import pathlib
import shutil

import numpy as np

from vf.core import cards
from vf.core.ctx import Result
from vf.ref import c44_lhapdf as L
from vf.ref import c44_tensors as T

ID = "C45"
LEVEL = "exploration"
TECHNIQUE = "complete product of evolution grids x theory settings x target grids x members x install, files re-read by an independent parser"
LEVEL_TEXT = (
    "every enumerated card is exported by the real evolve_pdfs (stub lhapdf); the text of every written "
    "file is parsed independently and each number is compared with a tensordot application of the "
    "archive's operators, the info ranges with the written grids, the alpha_s table with the coupling "
    "of the solver's last path segment (and a closed form at LO); dump/load of blocks must reproduce the text"
)
LEVEL_NOTE = (
    "decides the property on the lattice only (9 evolution grids, 8 theory settings incl. xif=2 and QED slices, 4 target grids, 1-3 members, "
    "3-4 point x grids, caller info_update / directory path slices, a pure dump/load family); operators synthetic except for the solved cases; "
    "interpolation degree 1; trusted: the 60-line parser, numpy, mpmath"
)
FLOOR_NONTRIVIAL = 20

GRIDS = {
    "one": [[10.0, 5]],
    "unsorted-1nf": [[100.0, 5], [10.0, 5]],
    "unsorted-3nf": [[100.0, 5], [3.0, 4], [10.0, 5], [1.5, 3]],
    "threshold-dup": [[4.5, 4], [4.5, 5], [2.0, 4], [50.0, 5]],
    "sorted-2nf": [[3.0, 4], [100.0, 5]],
    "forced-nf": [[10.0, 4], [3.0, 3]],  # fewer flavours than the matching scales would give by default
    "decimals": [[1.7321, 3], [1.4142, 3], [31.6228, 5], [7.0711, 5]],
    # scales that are not multiples of 1e-4 (mu = sqrt(Q2) of a Q2-style card): the 4-decimal QMin/QMax of the
    # info file cannot equal the 7-digit Q nodes of the data files.  "irrational": lowest scale rounds UP, highest DOWN
    # (round-to-nearest leaves both outside the range); "irrational-ok": lowest rounds DOWN, highest UP
    "irrational": [[200.0**0.5, 5], [3.0**0.5, 3], [7.0**0.5, 4]],
    "irrational-ok": [[1000.0**0.5, 5], [2.0**0.5, 3], [8.0**0.5, 4]],
}
THEORIES = {
    "pole-lo": dict(order=[1, 0]),
    "pole-nlo": dict(order=[2, 0]),
    "pole-nnlo": dict(order=[3, 0]),
    "msbar-nlo": dict(order=[2, 0], scheme="MSBAR", mass_refs=[2.0, 4.5, 173.07]),
    "msbar-ref-nlo": dict(order=[2, 0], scheme="MSBAR", masses=[1.8, 4.2, 173.07], mass_refs=[2.5, 5.0, 173.07]),
    # scale variations: the info file lists alpha_s at Q (LHAPDF meaning), the solver's expansion parameter is taken at
    # xif^2 Q^2 -> compared with the solver's coupling OBJECT evaluated at the listed scales (and the LO closed form)
    "pole-lo-xif2-expanded": dict(order=[1, 0], xif=2.0, sv="expanded"),
    "pole-nlo-xif2-exponentiated": dict(order=[2, 0], xif=2.0, sv="exponentiated"),
    # coupled alpha_s / alpha_em running (distinct branch of the coupling)
    "pole-nlo-qed": dict(order=[2, 1]),
}
XIF_THEORIES = ("pole-lo-xif2-expanded", "pole-nlo-xif2-exponentiated")
# what a caller may pass as info_update: every entry that the statement ties to the written data is wrong on purpose
INFO_UPDATE = {
    "SetDesc": "c45 caller text",
    "NumMembers": 99,
    "XMin": 0.5,
    "XMax": 0.6,
    "QMin": 0.1,
    "QMax": 12345.0,
    "Flavors": [1, 2],
    "AlphaS_Qs": [1.0],
    "AlphaS_Vals": [0.5],
}
XGRIDS = {3: [0.01, 0.1, 1.0], 4: [0.001, 0.01, 0.3, 1.0]}
INIT = [1.65, 4]


def _target(kind, xg):
    if kind == "none":
        return None
    if kind == "nodes":
        return list(xg[1:])
    if kind == "interior":  # both ends differ from the card's grid (2 points = the smallest grid accepted)
        return [xg[1], math.sqrt(xg[1] * xg[2])]
    if kind == "mid":
        out = []
        for a, b in zip(xg[1:], xg[2:]):
            out += [a, math.sqrt(a * b)]
        return out + [xg[-1]]
    raise ValueError(kind)


def _half_unit7(v):
    """Half a unit of the 7th significant digit of v (nodes are printed with %.6e)."""
    return 0.5 * 10.0 ** (math.floor(math.log10(abs(v))) - 6) * (1.0 + 1e-9) if v else 0.0


def _close(a, b, rel, ab=0.0):
    return abs(a - b) <= ab + rel * max(abs(a), abs(b))


def _run_export(case, th, opc, pdfs, name, eko_path, solve, target):
    """Call evolve_pdfs; for an explicit target grid try the argument types a caller could pass."""
    from eko.interpolation import XGrid
    from ekobox import evol_pdf

    kw = dict(install=case["install"], name=name)
    if solve:
        kw["store_path"] = eko_path
    elif case.get("path_dir"):
        kw["path"] = pathlib.Path(eko_path).parent  # a directory: the archive is <dir>/eko.tar
    else:
        kw["path"] = eko_path
    if case.get("info_update"):
        kw["info_update"] = {k: (list(v) if isinstance(v, list) else v) for k, v in INFO_UPDATE.items()}
    if target is None:
        evol_pdf.evolve_pdfs(pdfs, th, opc, **kw)
        return "none", []

    class IterGrid(XGrid):  # duck type offering both `.raw` and iteration
        def __iter__(self):
            return iter(self.raw)

        def __array__(self, dtype=None, copy=None):
            return np.asarray(self.raw, dtype=dtype)

    attempts = [("list", lambda: list(target)), ("XGrid", lambda: XGrid(list(target))), ("iterable-XGrid", lambda: IterGrid(list(target)))]
    errors = []
    for label, mk in attempts:
        shutil.rmtree(name, ignore_errors=True)
        if solve and pathlib.Path(eko_path).exists():
            os.unlink(eko_path)
        try:
            evol_pdf.evolve_pdfs(pdfs, th, opc, targetgrid=mk(), **kw)
            return label, errors
        except (TypeError, AttributeError) as exc:
            errors.append(f"{label}: {type(exc).__name__}: {str(exc)[:120]}")
    raise RuntimeError("no argument type accepted: " + " | ".join(errors))


PID_SETS = {"three": [-2, 21, 4], "one": [21], "all": None}
HEADS = {"default": None, "empty-list": [], "custom": "custom"}


def _raw_blocks(member, pids):
    """Two in-memory blocks (2 and 3 scales) of numbers that are NOT multiples of the printed units."""
    out = []
    for b, (xs, mu2s) in enumerate(
        (([1e-3 / 3.0, 0.1 / 7.0, 2.0 / 3.0, 1.0], [3.0, 200.0 / 9.0]), ([1e-5 * math.pi, 0.5, 1.0], [200.0 / 9.0, 1e3 / 3.0, 1e8 / 7.0]))
    ):
        rows = []
        for ix, x in enumerate(xs):
            for iq, mu2 in enumerate(mu2s):
                row = []
                for ip, pid in enumerate(pids):
                    k = 1 + ip + 3 * iq + 7 * ix + 11 * b + 13 * member
                    v = math.sin(1.3 * k) * 10.0 ** ((k * 5) % 23 - 11) / 3.0
                    if k % 9 == 0:
                        v = 0.0
                    row.append(v)
                rows.append(row)
        out.append(dict(xgrid=np.array(xs), mu2grid=list(mu2s), pids=np.array(pids), data=np.array(rows)))
    return out


def _evaluate_dumpload(case):
    """export.dump_set / dump_blocks / dump_info of un-rounded in-memory data, re-read by ekobox's loader and by the
    independent parser: everything must come back to the printed precision (half a unit of the last printed digit)."""
    from ekobox.genpdf import export, load

    res = Result()
    where = f"case={case}"
    pids = PID_SETS[case["pids"]] or list(L.PIDS)
    nmem = case["members"]
    d = cards.scratch_path("c45").with_suffix("")
    d.mkdir(parents=True)
    name = "c45raw"
    cwd = os.getcwd()
    try:
        members = [_raw_blocks(m, pids) for m in range(nmem)]
        heads = HEADS[case["head"]]
        if heads == "custom":
            heads = [f"PdfType: {'central' if m == 0 else 'error'} # c45 member {m}\n" for m in range(nmem)]  # one line: the loader's head is the first line
        info = {"SetDesc": "c45 raw", "NumMembers": nmem, "Flavors": [int(p) for p in pids], "XMin": 1e-3 / 3.0, "AlphaS_Vals": [0.1 / 3.0, 0.2]}
        os.chdir(d)
        try:
            export.dump_set(name, info, members, pdf_type_list=heads)
            single = export.dump_info(d / "single" / "other.info", info)  # explicit file name
        except Exception as exc:  # noqa
            res.outcome = f"raises:{type(exc).__name__}"
            res.fail("dump_set/raises", f"{where}: {type(exc).__name__}: {str(exc)[:300]}")
            return res
        finally:
            os.chdir(cwd)
        setdir = d / name
        files = sorted(p.name for p in setdir.iterdir())
        expect_files = sorted([f"{name}.info"] + [f"{name}_{m:04d}.dat" for m in range(nmem)])
        if files != expect_files:
            res.fail("dump_set/files", f"{where}: files {files}, expected {expect_files}")
            return res
        L.fake_lhapdf(d)
        worst = {"data": 0.0, "x": 0.0, "q": 0.0}

        def units(got, ref, digits, what):
            """|got-ref| in units of the last of `digits` printed significant digits of ref."""
            if ref == 0:
                return 0.0 if got == 0 else math.inf
            u = abs(got - ref) / 10.0 ** (math.floor(math.log10(abs(ref))) - (digits - 1))
            worst[what] = max(worst[what], u)
            return u

        for m, blocks in enumerate(members):
            text = (setdir / f"{name}_{m:04d}.dat").read_text()
            try:
                header, pblocks = L.parse_dat(text)
                head, lblocks = load.load_blocks_from_file(name, m)
            except Exception as exc:  # noqa
                res.fail("dumpload/unreadable", f"{where}: member {m}: {type(exc).__name__}: {str(exc)[:300]}")
                continue
            want_head = (heads[m] if heads else ("PdfType: central\n" if m == 0 else "PdfType: replica\n")).split("\n")[:-1] + ["Format: lhagrid1"]
            if header != want_head:
                res.fail(f"dumpload/header/head={case['head']}", f"{where}: member {m}: header lines {header}, expected {want_head}")
            if head != text.split("\n")[0] + "\n":
                res.fail("dumpload/loaded-head", f"{where}: member {m}: loader returns head {head!r}, file starts with {text[:40]!r}")
            if len(pblocks) != len(blocks) or len(lblocks) != len(blocks):
                res.fail("dumpload/blocks", f"{where}: member {m}: {len(blocks)} blocks written, {len(pblocks)} parsed, {len(lblocks)} loaded")
                continue
            for ib, (blk, pb, lb) in enumerate(zip(blocks, pblocks, lblocks)):
                if [int(p) for p in lb["pids"]] != list(pids) or pb["pids"] != list(pids):
                    res.fail("dumpload/pids", f"{where}: member {m} block {ib}: pids {list(lb['pids'])} / {pb['pids']}, written {pids}")
                    continue
                shape_ok = (
                    np.asarray(lb["data"]).shape == blk["data"].shape
                    and len(lb["xgrid"]) == len(blk["xgrid"]) == len(pb["x"])
                    and len(lb["mu2grid"]) == len(blk["mu2grid"]) == len(pb["q"])
                )
                if not shape_ok:
                    res.fail("dumpload/shape", f"{where}: member {m} block {ib}: loaded data {np.asarray(lb['data']).shape}, written {blk['data'].shape}")
                    continue
                bad = None
                for got, ref in zip(lb["xgrid"], blk["xgrid"]):
                    if units(float(got), float(ref), 7, "x") > 0.5 * (1 + 1e-6):
                        bad = f"x node {got!r} vs {ref!r}"
                for got, ref in zip(lb["mu2grid"], blk["mu2grid"]):
                    if units(math.sqrt(got), math.sqrt(ref), 7, "q") > 0.5 * (1 + 1e-6):
                        bad = f"mu2 node {got!r} vs {ref!r}"
                for got, ref in zip(np.asarray(lb["data"]).ravel(), blk["data"].ravel()):
                    if units(float(got), float(ref), 9, "data") > 0.5 * (1 + 1e-6):
                        bad = f"value {got!r} vs {ref!r}"
                if bad:
                    res.fail("dumpload/not-preserved-to-printed-precision", f"{where}: member {m} block {ib}: {bad}")
                # the loader and the independent parser read the same numbers
                same = list(lb["xgrid"]) == pb["x"] and np.array_equal(np.asarray(lb["data"]), pb["data"].reshape(-1, len(pids)))
                same = same and all(_close(a, b * b, 1e-15) for a, b in zip(lb["mu2grid"], pb["q"]))
                if not same:
                    res.fail("load/blocks-differ", f"{where}: member {m} block {ib}: load_blocks_from_file does not return the numbers in the file")
            # second generation: dumping what was loaded reproduces the text
            re = d / "redump" / f"{name}_{m:04d}.dat"
            re.parent.mkdir(exist_ok=True)
            try:
                export.dump_blocks(re, m, lblocks, pdf_type=head)
                if re.read_text() != text:
                    res.fail("dump-load/not-reproduced", f"{where}: member {m}: dumping the loaded blocks does not reproduce the file")
            except Exception as exc:  # noqa
                res.fail("load/raises", f"{where}: member {m}: {type(exc).__name__}: {str(exc)[:300]}")
        # info: both spellings of the target, read by the line parser and by the loader
        try:
            a = L.parse_info((setdir / f"{name}.info").read_text())
            b = L.parse_info(pathlib.Path(single).read_text())
            c = load.load_info_from_file(name)
            if pathlib.Path(single) != d / "single" / "other.info":
                res.fail("dump_info/target", f"{where}: dump_info wrote {single}")
            if not (a == b == c == info):
                res.fail("dump_info/not-preserved", f"{where}: info written {info}, read {a} / {b} / {c}")
        except Exception as exc:  # noqa
            res.fail("dump_info/unreadable", f"{where}: {type(exc).__name__}: {str(exc)[:300]}")
        res.info = {
            "max_dumpload_value_dev_in_units_of_last_printed_digit": worst["data"],
            "max_dumpload_x_dev_in_units_of_last_printed_digit": worst["x"],
            "max_dumpload_Q_dev_in_units_of_last_printed_digit": worst["q"],
        }
        res.outcome = f"dumpload:pids={case['pids']}:head={case['head']}:members={nmem}"
        res.nontrivial = True
        return res
    finally:
        os.chdir(cwd)
        shutil.rmtree(d, ignore_errors=True)


def evaluate(case):
    from eko import basis_rotation as br
    from eko.io.items import Operator
    from eko.io.struct import EKO
    from ekobox.genpdf import export, load

    if case.get("kind") == "dumpload":
        return _evaluate_dumpload(case)
    res = Result()
    if list(br.flavor_basis_pids) != L.PIDS:
        raise AssertionError("flavour order of the operator axes differs from the documented one")
    xg = XGRIDS[case["nx"]]
    nx = len(xg)
    mugrid = GRIDS[case["grid"]]
    cfg = dict(xgrid=xg, init=INIT, mugrid=mugrid, degree=1, **THEORIES[case["theory"]])
    where = f"case={case}"
    d = cards.scratch_path("c45").with_suffix("")
    work, lha = d / "work", d / "lhapdf"
    work.mkdir(parents=True)
    lha.mkdir()
    name = "c45set"
    cwd = os.getcwd()
    info = {}
    alphas_note = ""
    try:
        try:
            th, opc = cards.build(cfg)
        except Exception as exc:  # noqa
            raise AssertionError(f"card of the lattice not accepted: {exc}")
        eko_path = d / "e.tar"
        if case.get("path_dir"):
            (d / "ekodir").mkdir()
            eko_path = d / "ekodir" / "eko.tar"
        eps = [(float(mu) * float(mu), int(nf)) for mu, nf in mugrid]
        ops = {}
        if not case["solve"]:
            with EKO.create(eko_path) as b:
                e = b.load_cards(th, opc).build()
                if sorted(e.operator_card.evolgrid) != sorted(eps):
                    raise AssertionError(f"evolution points {e.operator_card.evolgrid} vs {eps}")
                for i, ep in enumerate(eps):
                    ops[ep] = T.tensor(case["opkind"], nx, i)
                    e[ep] = Operator(ops[ep].copy(), T.error("dense", nx, i) if i % 2 else None)
        pdfs = [L.ToyPDF(m) for m in range(case["members"])]
        target = _target(case["target"], xg)
        L.fake_lhapdf(lha)
        os.chdir(work)
        try:
            used, rejected = _run_export(case, th, opc, pdfs, name, eko_path, case["solve"], target)
        except Exception as exc:  # noqa
            res.outcome = f"raises:{type(exc).__name__}"
            res.fail(
                f"evolve_pdfs/raises/target={'explicit' if target is not None else 'none'}",
                f"{where}: {type(exc).__name__}: {str(exc)[:400]}",
            )
            return res
        finally:
            os.chdir(cwd)
        if target is not None and used == "iterable-XGrid":
            res.fail(
                "evolve_pdfs/targetgrid-type",
                f"{where}: an explicit target grid is accepted neither as list (documented) nor as XGrid: {rejected}",
            )
        if case["solve"]:
            for ep, (a, _) in cards.read_ops(eko_path).items():
                ops[(float(ep[0]), int(ep[1]))] = a
            if sorted(ops) != sorted(eps):
                res.fail("evolve_pdfs/stored-eko-points", f"{where}: stored EKO has {sorted(ops)}, expected {sorted(eps)}")
                return res
        # ------------------------------------------------------------ locate the files
        setdir = (lha if case["install"] else work) / name
        if not setdir.is_dir():
            res.fail(f"export/set-missing/install={case['install']}", f"{where}: {setdir} does not exist; work={sorted(p.name for p in work.iterdir())} lhapdf={sorted(p.name for p in lha.iterdir())}")
            return res
        if case["install"] and (work / name).exists():
            res.fail("export/install-left-source", f"{where}: {work/name} still exists after install")
        files = sorted(p.name for p in setdir.iterdir())
        expect_files = sorted([f"{name}.info"] + [f"{name}_{m:04d}.dat" for m in range(len(pdfs))])
        if files != expect_files:
            res.fail("export/files", f"{where}: files {files}, expected {expect_files}")
            return res
        # ------------------------------------------------------------ expected grids
        xw = list(target) if target is not None else list(xg)
        R = L.loglinear_matrix(xg, xw)
        nfs = sorted({nf for _, nf in eps})
        blocks_exp = [(nf, sorted(mu2 for mu2, n in eps if n == nf)) for nf in nfs]
        max_val = 0.0
        all_q = []
        pid_sets = []
        for m, pdf in enumerate(pdfs):
            text = (setdir / f"{name}_{m:04d}.dat").read_text()
            try:
                header, blocks = L.parse_dat(text)
            except ValueError as exc:
                res.fail("dat/structure", f"{where}: member {m}: {exc}")
                continue
            if "Format: lhagrid1" not in header or not any(h.startswith("PdfType:") for h in header):
                res.fail("dat/header", f"{where}: member {m}: header {header}")
            if len(blocks) != len(blocks_exp):
                res.fail("dat/blocks", f"{where}: member {m}: {len(blocks)} blocks, expected one per nf {nfs}")
                continue
            f_in = L.input_grid(pdf, xg, INIT[0] ** 2)
            prev_q = -1.0
            for blk, (nf, mu2s) in zip(blocks, blocks_exp):
                qs = [math.sqrt(v) for v in mu2s]
                if len(blk["x"]) != len(xw) or any(not _close(a, b, 1e-6) for a, b in zip(blk["x"], xw)):
                    res.fail(f"dat/xgrid/target={case['target']}", f"{where}: member {m} nf={nf}: x grid {blk['x']}, expected {xw}")
                    continue
                if len(blk["q"]) != len(qs) or any(not _close(a, b, 1e-6) for a, b in zip(blk["q"], qs)):
                    res.fail("dat/Qgrid", f"{where}: member {m} nf={nf}: Q grid {blk['q']}, expected {qs}")
                    continue
                if blk["q"][0] < prev_q * (1 - 1e-6):
                    res.fail("dat/blocks-order", f"{where}: member {m}: block nf={nf} starts at Q={blk['q'][0]} below the previous block's end {prev_q}")
                prev_q = blk["q"][-1]
                if m == 0:
                    all_q.append(list(blk["q"]))
                    pid_sets.append(list(blk["pids"]))
                if sorted(blk["pids"]) != sorted(L.PIDS):
                    res.fail("dat/pids", f"{where}: member {m} nf={nf}: flavours {blk['pids']}")
                    continue
                for iq, mu2 in enumerate(mu2s):
                    val, scale = L.apply(ops[(mu2, nf)], f_in)  # [pid, x] on the EKO grid
                    val, scale = val @ R.T, scale @ np.abs(R).T  # to the written x grid
                    for ip, pid in enumerate(blk["pids"]):
                        a = L.PIDS.index(pid)
                        for ix, x in enumerate(xw):
                            ref = x * val[a, ix]
                            got = blk["data"][ix, iq, ip]
                            # one unit of the last printed digit (%.8e); 10 half-units allowed
                            unit = 10.0 ** (math.floor(math.log10(abs(ref))) - 8) if ref != 0 else 0.0
                            tol = 5.0 * unit + 1e-12 * x * scale[a, ix] + 1e-300
                            if unit:
                                max_val = max(max_val, abs(got - ref) / unit)
                            if not abs(got - ref) <= tol:
                                res.fail(
                                    "dat/values",
                                    f"{where}: member {m} nf={nf} Q={qs[iq]} x={x} pid={pid}: file has {got!r}, x*(O.f) = {ref!r}",
                                )
                                break
                        else:
                            continue
                        break
            # ------------------------------------------------------- ekobox's own loader and writer
            L.fake_lhapdf(setdir.parent)
            try:
                head, lblocks = load.load_blocks_from_file(name, m)
                ok = len(lblocks) == len(blocks)
                for lb, blk in zip(lblocks, blocks):
                    ok = ok and list(lb["xgrid"]) == blk["x"] and list(lb["pids"]) == blk["pids"]
                    ok = ok and all(_close(a, b * b, 1e-15) for a, b in zip(lb["mu2grid"], blk["q"]))
                    ok = ok and np.array_equal(np.asarray(lb["data"]), blk["data"].reshape(-1, len(blk["pids"])))
                if not ok:
                    res.fail("load/blocks-differ", f"{where}: member {m}: load_blocks_from_file does not return the numbers in the file")
                re = d / "redump" / f"{name}_{m:04d}.dat"
                re.parent.mkdir(exist_ok=True)
                export.dump_blocks(re, m, lblocks, pdf_type=head)
                if re.read_text() != text:
                    res.fail("dump-load/not-reproduced", f"{where}: member {m}: dumping the loaded blocks does not reproduce the file")
            except Exception as exc:  # noqa
                res.fail("load/raises", f"{where}: member {m}: {type(exc).__name__}: {str(exc)[:300]}")
        # ------------------------------------------------------------ info file
        itext = (setdir / f"{name}.info").read_text()
        try:
            inf = L.parse_info(itext)
        except Exception as exc:  # noqa
            res.fail("info/structure", f"{where}: {exc}")
            return res
        try:
            L.fake_lhapdf(setdir.parent)
            if load.load_info_from_file(name) != inf:
                res.fail("info/load-differs", f"{where}: load_info_from_file disagrees with a line-by-line reading")
        except Exception as exc:  # noqa
            res.fail("info/load-raises", f"{where}: {type(exc).__name__}: {str(exc)[:300]}")
        if not all_q:
            return res
        flat_q = [q for b in all_q for q in b]
        written = dict(XMin=min(xw), XMax=max(xw), QMin=min(flat_q), QMax=max(flat_q))
        for axis, ab in (("X", 0.0), ("Q", 0.5e-4)):
            # ranges are printed with 4 decimals (Q) / full precision (x): half a unit of the last digit allowed
            lo, hi = inf.get(axis + "Min"), inf.get(axis + "Max")
            wlo, whi = written[axis + "Min"], written[axis + "Max"]
            ok = all(isinstance(v, (int, float)) for v in (lo, hi))
            ok = ok and _close(float(lo), wlo, 1e-6, ab) and _close(float(hi), whi, 1e-6, ab)
            if not ok:
                res.fail(
                    f"info/{axis}-range",
                    f"{where}: {axis}Min={lo!r} {axis}Max={hi!r} but the written {axis.lower()} grid "
                    f"({'target ' + used if target is not None and axis == 'X' else 'as on the card'}) spans [{wlo}, {whi}]",
                )
            # "bound": the range must contain the written nodes (as printed, i.e. up to half a unit of their 7th digit)
            if ok:
                sides = []
                if float(lo) > wlo + _half_unit7(wlo):
                    sides.append(f"{axis}Min={lo!r} above the lowest written node {wlo!r}")
                if float(hi) < whi - _half_unit7(whi):
                    sides.append(f"{axis}Max={hi!r} below the highest written node {whi!r}")
                if sides:
                    res.fail(
                        f"info/{axis}-range/not-bounding",
                        f"{where}: the [{axis}Min, {axis}Max] of the info file does not contain the {axis.lower()} grid of the data files: " + "; ".join(sides),
                    )
        if sorted(inf.get("Flavors") or []) != sorted(pid_sets[0]):
            res.fail("info/Flavors", f"{where}: Flavors={inf.get('Flavors')} data columns={pid_sets[0]}")
        if inf.get("NumMembers") != len(pdfs):
            res.fail("info/NumMembers", f"{where}: NumMembers={inf.get('NumMembers')} with {len(pdfs)} data files")
        aq, av = inf.get("AlphaS_Qs"), inf.get("AlphaS_Vals")
        if not isinstance(aq, list) or not isinstance(av, list) or len(aq) != len(av) or len(aq) != len(flat_q):
            res.fail("info/AlphaS-shape", f"{where}: AlphaS_Qs={aq} AlphaS_Vals={av} for written Q grids {all_q}")
        else:
            if any(not _close(float(a), b, 1e-6) for a, b in zip(aq, flat_q)):
                res.fail("info/AlphaS_Qs", f"{where}: AlphaS_Qs={aq} but the written Q subgrids are {all_q}")
            else:
                points = [(mu2, nf) for nf, mu2s in blocks_exp for mu2 in mu2s]
                try:
                    if case["theory"] in XIF_THEORIES:
                        # muF != muR: "at the listed scales" = the solver's coupling object evaluated at Q (not at xif*Q)
                        evol = L.coupling_at_listed(eko_path, points)
                        alphas_note = ":alphas-at-Q-not-at-xif*Q"
                    else:
                        evol = L.evolution_alphas(eko_path, points)
                except Exception as exc:  # noqa
                    # the solver itself cannot set up its coupling for this card (no EKO could be computed
                    # from it): nothing to compare the table with
                    evol = []
                    alphas_note = f":evolution-coupling-unavailable({type(exc).__name__})"
                worst = 0.0
                for (mu2, nf), got, ref in zip(points, av, evol):
                    worst = max(worst, abs(got - ref) / abs(ref))
                    if not _close(float(got), ref, 1e-10):
                        res.fail(
                            f"info/AlphaS_Vals/scheme={'MSBAR' if case['theory'].startswith('msbar') else 'POLE'}",
                            f"{where}: alpha_s(Q={math.sqrt(mu2)}, nf={nf}) = {got!r} in the info file, the evolution uses {ref!r}",
                        )
                        break
                info["max_alphas_vs_evolution_rel"] = worst
                if case["theory"] in ("pole-lo", "pole-lo-xif2-expanded"):
                    walls = [2.0**2, 4.5**2, 173.07**2]
                    worst = 0.0
                    for (mu2, nf), got in zip(points, av):
                        ref = L.alphas_lo(0.118, 91.2, 5, walls, math.sqrt(mu2), nf)
                        worst = max(worst, abs(got - ref) / ref)
                        if not _close(float(got), ref, 1e-9):
                            res.fail("info/AlphaS_Vals/closed-form-LO", f"{where}: alpha_s(Q={math.sqrt(mu2)}, nf={nf}) = {got!r}, closed form {ref!r}")
                            break
                    info["max_alphas_vs_closed_form_rel"] = worst
        info["max_value_dev_in_units_of_last_printed_digit"] = float(max_val)
        res.info = info
        res.outcome = f"exported:target={case['target']}:{used}:members={len(pdfs)}:install={case['install']}:blocks={len(blocks_exp)}{alphas_note}"
        res.nontrivial = True
        return res
    finally:
        os.chdir(cwd)
        shutil.rmtree(d, ignore_errors=True)


BASE_GRIDS = ["one", "unsorted-1nf", "unsorted-3nf", "threshold-dup", "sorted-2nf", "forced-nf"]
BASE_THEORIES = ["pole-lo", "pole-nlo", "msbar-nlo", "msbar-ref-nlo"]


def _cases(thorough):
    cases = []
    seen = set()

    def add(**kw):
        key = repr(sorted(kw.items()))
        if key not in seen:
            seen.add(key)
            cases.append(kw)

    def export(g, t, tg, mem, inst, nx=3, kind="dense", **extra):
        add(grid=g, theory=t, target=tg, members=mem, install=inst, nx=nx, opkind=kind, solve=False, **extra)

    grids = BASE_GRIDS + ["decimals"] if thorough else BASE_GRIDS
    theories = BASE_THEORIES + ["pole-nnlo"] if thorough else BASE_THEORIES
    members = [1, 2, 3] if thorough else [1, 3]
    ops = [(3, "dense"), (4, "evol")] if thorough else [(3, "dense")]
    # (1) the round-1 product (unchanged)
    for g in grids:
        for t in theories:
            for tg in ("none", "nodes", "mid"):
                for mem in members:
                    for inst in (False, True):
                        for nx, kind in ops:
                            export(g, t, tg, mem, inst, nx, kind)
    # (2) scales that need rounding in the info file: grids x theories (target none, 1 member; thorough: all targets/ops)
    for g in ("irrational", "irrational-ok"):
        for t in theories:
            for tg in ("none", "nodes", "mid", "interior") if thorough else ("none",):
                for nx, kind in ops:
                    export(g, t, tg, 1, False, nx, kind)
    # (3) a target grid both of whose ends differ from the card's grid: grids x theories (thorough: x members x install x ops)
    for g in grids:
        for t in theories:
            for mem in members if thorough else [1]:
                for inst in (False, True) if thorough else (False,):
                    for nx, kind in ops:
                        export(g, t, "interior", mem, inst, nx, kind)
    # (4) muF != muR and QED couplings: grids (quick: the two with forced / several nf) x target {none, (interior)}
    for t in XIF_THEORIES + ("pole-nlo-qed",):
        for g in (BASE_GRIDS + ["irrational-ok"]) if thorough else ("unsorted-3nf", "forced-nf"):
            for tg in ("none", "interior") if thorough else ("none",):
                export(g, t, tg, 1, False)
    # (5) caller-supplied info_update contradicting the data; archive given as a directory
    for g in BASE_GRIDS if thorough else ("unsorted-3nf", "one"):
        for t in ("pole-nlo", "msbar-nlo") if thorough else ("pole-nlo",):
            for tg in ("none", "interior", "mid"):
                for mem in (1, 3):
                    export(g, t, tg, mem, mem == 3, info_update=True)
    for g in ("unsorted-3nf", "one"):
        for inst in (False, True):
            export(g, "pole-nlo", "none", 2, inst, path_dir=True)
    # really solved EKOs (LO, 3-point grid): evolve_pdfs computes and stores the operator itself
    solved = [("unsorted-1nf", "none")] + ([("sorted-2nf", "none"), ("unsorted-1nf", "nodes"), ("unsorted-1nf", "interior")] if thorough else [])
    for g, tg in solved:
        add(grid=g, theory="pole-lo", target=tg, members=2, install=True, nx=3, opkind="-", solve=True)
    # (6) the public writer/loader pair on un-rounded in-memory blocks (no EKO)
    for pids in PID_SETS:
        for head in HEADS:
            for mem in (1, 2, 3):
                add(kind="dumpload", pids=pids, head=head, members=mem)
    return cases


def run(ctx):
    cases = _cases(ctx.thorough())
    ctx.run_cases(cases, evaluate)
    ctx.rule = (
        "union of complete products. (1) evolution grids {single, unsorted same-nf, unsorted over 3 nf, duplicate Q on a threshold, "
        "sorted 2 nf, nf forced below the default, (thorough) many-decimal scales} x theory {POLE LO/NLO/(NNLO), MSBAR at m(m), MSBAR with reference "
        "scales different from the masses} x target grid {none, sub-set of nodes, nodes+log-midpoints} x members "
        "{1,(2),3} x install {no, yes} (thorough: x {3-point dense, 4-point near-identity} operators); (2) two grids of irrational scales "
        "(sqrt of integers; lowest rounds up/highest down at 4 decimals, and the reverse) x theories [thorough: x 4 targets x operators]; "
        "(3) target grid 'interior' (2 points, both ends inside the card's grid) x grids x theories [thorough: x members x install x operators]; "
        "(4) theories {LO xif=2 expanded, NLO xif=2 exponentiated, NLO QED} x 2 (thorough 7) grids; (5) caller info_update contradicting "
        "the data (NumMembers, Flavors, XMin/XMax, QMin/QMax, AlphaS tables) x 2 (6) grids x 3 targets x members {1,3}, and the archive "
        "given as a directory (4 cards); (6) export.dump_set/dump_info + load of un-rounded in-memory blocks: pids {3, 1, all 14} x member head "
        "{default, empty list, custom list} x members {1,2,3}; plus 1 (4) cards solved by evolve_pdfs itself; "
        "every number of every written file compared; non-trivial = a set was written"
    )
    ctx.assumptions += [
        "operators are synthetic tensors except in the solved cases; toy input PDFs with missing and negative flavours",
        "xif = 1 except in family (4): there the info file's alpha_s is demanded at the listed Q (LHAPDF meaning), i.e. the solver's coupling "
        "object evaluated at Q, not its expansion parameter a_s(xif^2 Q^2); for xif = 1 it is compared with the coupling at the target end of "
        "the last path segment",
        "data tolerance 5 units of the 9th significant digit (print rounding reaches 0.5) + 1e-12 of the sum of moduli; x and Q nodes 1e-6 relative (7 digits); "
        "QMin/QMax within half a unit of the 4th decimal of the extreme written nodes AND containing them (up to half a unit of the 7th digit "
        "the nodes are printed with; same one-sided rule for XMin/XMax); alpha_s 1e-10 relative vs the solver's coupling, 1e-9 vs the LO closed form",
        "pure dump/load: values, x and Q come back within half a unit of the last printed digit (9 / 7 / 7 digits), no further slack",
        "an explicit target grid is offered as list, then XGrid, then an iterable XGrid subclass; the first accepted is used",
        "interpolation degree 1 only (the reference is piecewise-linear in ln x); other degrees are C43's subject",
    ]
