"""C41 legacy runcards and archives upgrade to equivalent current structures (X-num).

Part A (kind="legacy-theory" / "legacy-operator"): synthetic flat legacy runcards over
PTO x QED x HQ (outer) x {coupling spellings, QED reference, matching ratios, nfref, PTO_matching,
MSbar reference scales} resp. {ModEv spellings, ModSV, nf0, Q0, grid spelling, ratios} (inner,
complete products) through `eko.io.runcards.Legacy`; oracle = the field-mapping table below,
written from the meaning of the legacy keys, not from the converter. Each inner product is united with
the complete product of further settings at its base point: theory {6 spellings of the electromagnetic
coupling, n3lo_ad_variation key, use_fhmruvv key}; operator {backward_inversion of the operator card,
grid as list / generator spec, log flag, polarised / time-like, degree}.

Part B (kind="archive"): a current EKO is created with known cards and operators, then rewritten
into the on-disk layout of v0.13 ("data version 1") resp. v0.14 ("data version 2") by the
inverse of the documented format change (couplings.ref <- scale + num_flavs_ref, init <- mu0 +
heavy.num_flavs_init, metadata.xgrid <- bases.xgrid, use_fhmruvv <- use_fhmv, no matching_order in
v0.13), re-tarred and read with `EKO.read`; the structures it presents must carry the settings the
archive was made from, and the operators bit for bit; the metadata keep the writing version and get
data version 1 resp. 2. Also: v0.13 files without the use_fhmv key, version strings with post / rc /
dev / local segments, and old-layout files of versions without a patch (refusal or correct settings).
"""

import copy
import itertools
import math
import os
import shutil
import tarfile

import numpy as np

from vf.core import cards
from vf.core.ctx import Result
from vf.ref import c36_canon as cn

ID = "C41"
LEVEL = "exploration"
TECHNIQUE = "complete products of synthetic legacy runcards and synthetic v0.13/v0.14 archives against an independent field-mapping table"
LEVEL_TEXT = (
    "every enumerated legacy runcard pair is converted by the real Legacy class and every synthetic old-layout "
    "archive is read by the real EKO.read; each physical setting of the result is compared with a hand-written "
    "mapping from the legacy keys, operators bit for bit"
)
LEVEL_NOTE = (
    "the legacy archives are synthesised (no genuine v0.13/v0.14 file is available offline): the old layout is "
    "reconstructed as the inverse of what eko/io/v1.py, v2.py and metadata.py undo, so a misunderstanding shared "
    "with those modules would go unseen; trusted: the mapping table in this file, vf/ref/c36_canon.py"
)
FLOOR_NONTRIVIAL = 20

# =============================================================================== part A
MODEV = {
    "EXA": "ITERATE_EXACT",
    "EXP": "ITERATE_EXPANDED",
    "TRN": "TRUNCATED",
    "iterate-exact": "ITERATE_EXACT",
    "iterate-expanded": "ITERATE_EXPANDED",
    "perturbative-exact": "PERTURBATIVE_EXACT",
    "perturbative-expanded": "PERTURBATIVE_EXPANDED",
    "truncated": "TRUNCATED",
    "ordered-truncated": "ORDERED_TRUNCATED",
    "decompose-exact": "DECOMPOSE_EXACT",
    "decompose-expanded": "DECOMPOSE_EXPANDED",
}
MODSV = {None: None, "expanded": "EXPANDED", "exponentiated": "EXPONENTIATED"}
MASSES = [1.51, 4.5, 172.5]
RATIOS = [[1.0, 1.0, 1.0], [0.5, 1.0, 2.0]]
QREF = 91.2

TH_INNER = dict(
    alpha_key=["alphaqed", "alphaem"],
    qedref=["absent", "same", "far"],
    ratios=RATIOS,
    nfref=[None, 5],
    pto_matching=["absent", [1, 0]],
    qm=["same", "other"],
    xif=[1.0, 2.0],
)
# further theory settings that the converter maps; explored as a complete product of their own at the base point of
# TH_INNER (first value of every dimension): the union of the two sub-products is enumerated, not their product
N3LO_VAR = [1, 2, 3, 1, 2, 3, 1]
TH_EXTRA = dict(
    # spelling of the electromagnetic coupling: a key holding None carries no setting
    alpha_key=["alphaqed", "alphaem", "none", "qed-None+em", "em-None+qed", "both-equal"],
    n3lo=["absent", N3LO_VAR],
    fhm=["absent", False, True],
)
OP_INNER = dict(
    modev=list(MODEV),
    modsv=list(MODSV),
    nf0=[None, 3, 4],
    q0=[1.65, 4.5, 10.0],
    spelling=["mugrid", "Q2grid", "mu2grid"],
    ratios=RATIOS,
)
# further operator-card settings (complete product of their own at the base point of OP_INNER)
#  inversion: where the legacy cards keep `backward_inversion` - the legacy operator table (ekomark/data/db.py,
#             ekomark/data/operators.py default_card) holds it, the theory table never did
#  grid:      plain list or one of the generator spellings of XGrid.fromcard (observation only: refusal tolerated)
OP_EXTRA = dict(
    inversion=["operator:expanded", "operator:exact", "absent"],
    grid=["list", "make_grid", "lambertgrid"],
    is_log=[True, False],
    flags=[[False, True], [True, False]],
    degree=[3, 1],
)
GRID_SPEC = {"list": [1e-3, 1e-2, 0.1, 0.5, 1.0], "make_grid": ["make_grid", 4, 3], "lambertgrid": ["lambertgrid", 6]}
# linear target scales: below charm, between, exactly on the bottom wall for ratio 1 (4.5), above top
MUS = [1.0, 2.0, 4.5, 10.0, 100.0, 400.0]


def legacy_theory(pto, qed, hq, alpha_key="alphaqed", qedref="absent", ratios=RATIOS[0], nfref=5,
                  pto_matching="absent", qm="same", xif=1.0, modev="EXA", modsv=None, nf0=None, q0=1.65, n3lo="absent",
                  fhm="absent"):
    t = dict(
        ID=7, PTO=pto, QED=qed, FNS="ZM-VFNS", DAMP=0, IC=0, IB=0, ModEv=modev, ModSV=modsv, XIR=1.0, XIF=xif,
        NfFF=5, MaxNfAs=6, MaxNfPdf=6, Q0=q0, alphas=0.118, Qref=QREF, nf0=nf0, nfref=nfref, SxRes=0, SxOrd="LL",
        HQ=hq, mc=MASSES[0], mb=MASSES[1], mt=MASSES[2], kcThr=ratios[0], kbThr=ratios[1], ktThr=ratios[2],
        Comments="synthetic",
    )
    if alpha_key in ("alphaqed", "alphaem"):
        t[alpha_key] = 0.0078125
    elif alpha_key == "qed-None+em":
        t["alphaqed"], t["alphaem"] = None, 0.0078125
    elif alpha_key == "em-None+qed":
        t["alphaqed"], t["alphaem"] = 0.0078125, None
    elif alpha_key == "both-equal":
        t["alphaqed"], t["alphaem"] = 0.0078125, 0.0078125
    elif alpha_key != "none":
        raise ValueError(alpha_key)
    if n3lo != "absent":
        t["n3lo_ad_variation"] = list(n3lo)
    if fhm != "absent":
        t["use_fhmruvv"] = fhm
    qms = list(MASSES) if qm == "same" else [2.0, 5.0, 160.0]
    t["Qmc"], t["Qmb"], t["Qmt"] = qms
    if qedref == "same":
        t["Qedref"] = QREF
    elif qedref == "far":
        t["Qedref"] = 1.777
    if pto_matching != "absent":
        t["PTO_matching"] = list(pto_matching)
    return t


def legacy_operator(spelling="mugrid", mus=MUS, inversion="operator:expanded", grid="list", is_log=True, flags=(False, True), degree=3):
    o = dict(
        interpolation_xgrid=list(GRID_SPEC[grid]), interpolation_polynomial_degree=degree, interpolation_is_log=is_log,
        ev_op_max_order=7, ev_op_iterations=4, backward_inversion="expanded", n_integration_cores=2,
        debug_skip_non_singlet=False, debug_skip_singlet=True, polarized=flags[0], time_like=flags[1],
        inputgrid=None, targetgrid=None, inputpids=None, targetpids=None,
    )
    if inversion == "absent":
        del o["backward_inversion"]
    else:
        o["backward_inversion"] = inversion.split(":")[1]
    if spelling == "mugrid":
        o["mugrid"] = list(mus)
    else:
        o[spelling] = [m * m for m in mus]
    return o


def ref_nf(mu, ratios):
    """Default flavour number: 3 + number of matching scales (m k)^2 <= mu^2 (a point on a wall is above it)."""
    return 3 + sum(1 for m, k in zip(MASSES, ratios) if (m * k) ** 2 <= mu * mu)


def _enum_name(x):
    return None if x is None else x.name


def _chk(res, sig, where, name, got, want, tol=0.0):
    """One row of the mapping table."""
    ok = False
    if isinstance(want, float) and isinstance(got, (int, float)) and not isinstance(got, bool):
        if math.isnan(want):
            ok = isinstance(got, float) and math.isnan(got)
        else:
            ok = abs(got - want) <= tol * abs(want)
    else:
        ok = cn.first_diff(cn.canon(got), cn.canon(want)) is None
    if not ok:
        res.fail(f"{sig}/{name}", f"{where}: new {name} = {got!r}, legacy card means {want!r}")
    return ok


def eval_legacy_theory(case):
    from eko.io.runcards import Legacy

    import dataclasses

    from eko.io.runcards import TheoryCard

    res = Result()
    n = 0
    base = {k: v[0] for k, v in TH_INNER.items()}
    inners = [dict(i, n3lo="absent", fhm="absent") for i in cn_product(TH_INNER)]
    inners += [i for i in (dict(base, **x) for x in cn_product(TH_EXTRA)) if i not in inners]
    fhm_default = {f.name: f.default for f in dataclasses.fields(TheoryCard)}["use_fhmruvv"]
    for inner in inners:
        if case["hq"] == "POLE" and inner["qm"] == "other":
            continue  # reference scales are unused for pole masses
        t = legacy_theory(case["pto"], case["qed"], case["hq"], **inner)
        where = f"legacy theory PTO={case['pto']} QED={case['qed']} HQ={case['hq']} {inner}"
        try:
            new = Legacy(copy.deepcopy(t), legacy_operator()).new_theory
        except Exception as exc:  # noqa
            res.fail("Legacy.new_theory/raises", f"{where}: {type(exc).__name__}: {exc}")
            continue
        n += 1
        S = "Legacy.new_theory"
        _chk(res, S, where, "order", new.order, [case["pto"] + 1, case["qed"]])
        _chk(res, S, where, "couplings.alphas", new.couplings.alphas, 0.118)
        if inner["alpha_key"] != "none":
            _chk(res, S, where, "couplings.alphaem", new.couplings.alphaem, 0.0078125)
        elif case["qed"] == 0:
            # no electromagnetic coupling given and none needed: the neutral value (with QED > 0 the card is incomplete)
            _chk(res, S, where, "couplings.alphaem", new.couplings.alphaem, 0.0)
        # N3LO anomalous-dimension variation: a card without the key asks for the central one
        _chk(res, S, where, "n3lo_ad_variation", new.n3lo_ad_variation, [0] * 7 if inner["n3lo"] == "absent" else N3LO_VAR)
        # a card that says nothing about the N3LO parametrisation gets the documented default of the current card
        _chk(res, S, where, "use_fhmruvv", new.use_fhmruvv, fhm_default if inner["fhm"] == "absent" else inner["fhm"])
        _chk(res, S, where, "couplings.ref", new.couplings.ref, [QREF, inner["nfref"]])
        _chk(res, S, where, "couplings.em_running", new.couplings.em_running, inner["qedref"] == "same")
        qms = MASSES if inner["qm"] == "same" else [2.0, 5.0, 160.0]
        for i, q in enumerate("cbt"):
            m = new.heavy.masses[i]
            _chk(res, S, where, "heavy.masses.value", m[0], MASSES[i])
            _chk(res, S, where, "heavy.masses.scale", m[1], math.nan if case["hq"] == "POLE" else float(qms[i]))
        _chk(res, S, where, "heavy.masses_scheme", _enum_name(new.heavy.masses_scheme), case["hq"])
        _chk(res, S, where, "heavy.matching_ratios", list(new.heavy.matching_ratios), inner["ratios"])
        _chk(res, S, where, "xif", new.xif, inner["xif"])
        want_mo = [case["pto"], 0] if inner["pto_matching"] == "absent" else inner["pto_matching"]
        _chk(res, S, where, "matching_order", new.matching_order, want_mo)
    res.info = {"max_inner_points": n}
    res.outcome = "legacy-theory:" + ("ok" if not res.fails else "fails")
    return res


def eval_legacy_operator(case):
    from eko.io.runcards import Legacy

    from eko import interpolation

    res = Result()
    n = 0
    spec_refused = 0
    maxdev = 0.0
    base = {k: v[0] for k, v in OP_INNER.items()}
    xbase = {k: v[0] for k, v in OP_EXTRA.items()}
    inners = [dict(i, **xbase) for i in cn_product(OP_INNER)]
    inners += [i for i in (dict(base, **x) for x in cn_product(OP_EXTRA)) if i not in inners]
    want_grids = {
        "list": GRID_SPEC["list"], "make_grid": interpolation.make_grid(4, 3).tolist(), "lambertgrid": interpolation.lambertgrid(6).tolist(),
    }
    for inner in inners:
        t = legacy_theory(
            case["pto"], case["qed"], case["hq"], ratios=inner["ratios"], modev=inner["modev"], modsv=inner["modsv"],
            nf0=inner["nf0"], q0=inner["q0"],
        )
        o = legacy_operator(inner["spelling"], inversion=inner["inversion"], grid=inner["grid"], is_log=inner["is_log"], flags=inner["flags"], degree=inner["degree"])
        where = f"legacy cards PTO={case['pto']} QED={case['qed']} HQ={case['hq']} {inner}"
        try:
            new = Legacy(copy.deepcopy(t), copy.deepcopy(o)).new_operator
        except Exception as exc:  # noqa
            if inner["grid"] != "list" and isinstance(exc, ValueError):
                # a generator spec in a legacy card: whether the old format allowed it is not established, so a clean
                # refusal is only counted (see assumptions); if it is converted, every row below applies
                spec_refused += 1
                continue
            res.fail("Legacy.new_operator/raises", f"{where}: {type(exc).__name__}: {exc}")
            continue
        n += 1
        S = "Legacy.new_operator"
        want_nf0 = inner["nf0"] if inner["nf0"] is not None else ref_nf(inner["q0"], inner["ratios"])
        _chk(res, S, where, "init", new.init, [inner["q0"], want_nf0])
        if len(new.mugrid) != len(MUS):
            res.fail(f"{S}/mugrid-length", f"{where}: {new.mugrid}")
        else:
            for (mu, nf), want in zip(new.mugrid, MUS):
                dev = abs(mu - want) / want
                maxdev = max(maxdev, dev)
                if dev > 4e-16:
                    res.fail(f"{S}/mugrid-scale/{inner['spelling']}", f"{where}: scale {mu!r}, legacy grid means {want!r}")
                if nf != ref_nf(want, inner["ratios"]):
                    res.fail(f"{S}/mugrid-nf", f"{where}: scale {want} got nf={nf}, default flow gives {ref_nf(want, inner['ratios'])}")
        if np.asarray(new.xgrid.raw).tobytes() != np.asarray(want_grids[inner["grid"]], dtype=float).tobytes():
            res.fail(f"{S}/xgrid", f"{where}: {new.xgrid.raw.tolist()} vs {o['interpolation_xgrid']}")
        _chk(res, S, where, "xgrid.log", bool(new.xgrid.log), inner["is_log"])
        c = new.configs
        if inner["inversion"] != "absent":
            # the legacy operator card names the method of the backward matching
            want_inv = inner["inversion"].split(":")[1].upper()
            got_inv = _enum_name(c.inversion_method)
            if (want_inv, got_inv) == ("EXACT", "EXPANDED"):
                # the one recorded wrong behaviour: the key of the operator card is not read, the default comes out
                res.fail(
                    f"{S}/inversion_method/operator-card-key-ignored",
                    f"{where}: legacy operator card has backward_inversion='exact', new inversion_method = {got_inv!r}",
                )
            else:
                _chk(res, S, where, "inversion_method", got_inv, want_inv)
        _chk(res, S, where, "evolution_method", _enum_name(c.evolution_method), MODEV[inner["modev"]])
        _chk(res, S, where, "scvar_method", _enum_name(c.scvar_method), MODSV[inner["modsv"]])
        _chk(res, S, where, "ev_op_max_order", c.ev_op_max_order, [7, case["qed"]])
        _chk(res, S, where, "ev_op_iterations", c.ev_op_iterations, 4)
        _chk(res, S, where, "interpolation_polynomial_degree", c.interpolation_polynomial_degree, inner["degree"])
        _chk(res, S, where, "interpolation_is_log", c.interpolation_is_log, inner["is_log"])
        _chk(res, S, where, "polarized", c.polarized, inner["flags"][0])
        _chk(res, S, where, "time_like", c.time_like, inner["flags"][1])
        _chk(res, S, where, "debug.skip_singlet", new.debug.skip_singlet, True)
        _chk(res, S, where, "debug.skip_non_singlet", new.debug.skip_non_singlet, False)
    res.info = {"max_inner_points": n, "max_scale_reldev": maxdev, "max_generator_spec_grids_refused": spec_refused}
    res.outcome = "legacy-operator:" + ("ok" if not res.fails else "fails")
    return res


def cn_product(dims):
    names = list(dims)
    for vals in itertools.product(*(dims[n] for n in names)):
        yield dict(zip(names, vals))


# =============================================================================== part B
VERSIONS = {"v1": ["0.13.5", "0.13.0"], "v2": ["0.14.0", "0.14.6"]}
# version strings with post / pre-release / local segments (Metadata.load decides on major.minor of the parsed version)
VERSIONS_ODD = {"v1": ["0.13.5.post1", "0.13.2+g1234abc"], "v2": ["0.14.3rc1", "0.14.6+g1234abc", "0.14.0.dev3"]}
# old-layout archives of versions for which no patch exists: a clean refusal is demanded, not a half-converted object
VERSIONS_FOREIGN = ["0.12.3", "0.15.0"]
AR_ORDERS = [[1, 0], [2, 0], [3, 0], [4, 0], [2, 1]]
AR_KEYS = {
    0: [],
    1: [(10000.0, 5)],
    3: [(10.0, 4), (float(np.nextafter(10.0, np.inf)), 4), (1.0e4, 5)],
}
AR_SHAPE = (2, 3, 2, 3)
AR_GRID = [0.1, 0.5, 1.0]


def _archive_cfg(order, scheme, nf_init, fhm, mo="default"):
    cfg = dict(
        order=order, scheme=scheme, xgrid=AR_GRID, init=[1.65, nf_init], ref=[91.2, 5], ratios=[1.0, 2.0, 0.5],
        mugrid=[[10.0, 4], [100.0, 5]], use_fhmruvv=fhm, method="truncated", sv="expanded", inversion="exact",
        iterations=3, degree=2, xif=0.5, cores=1, n3lo_ad_variation=[0, 1, 0, 2, 0, 3, 0],
    )
    if mo != "default":
        cfg["matching_order"] = [max(order[0] - 2, 0), 0]
    if scheme == "MSBAR":
        cfg["mass_refs"] = [2.0, 4.5, 173.07]
    if order[1] > 0:
        cfg["em_running"] = True
    return cfg


def to_legacy_layout(root, which, version, extra_bases, drop_cores, fhm_key=True):
    """Rewrite theory.yaml / operator.yaml / metadata.yaml of an extracted current EKO in the old layout."""
    import yaml

    th = yaml.safe_load((root / "theory.yaml").read_text())
    op = yaml.safe_load((root / "operator.yaml").read_text())
    md = yaml.safe_load((root / "metadata.yaml").read_text())
    # theory: one reference point -> scale + flavour number; FNS bookkeeping lived in the theory card
    ref = th["couplings"].pop("ref")
    th["couplings"]["scale"] = ref[0]
    th["couplings"]["num_flavs_ref"] = ref[1]
    th["couplings"]["max_num_flavs"] = 6
    th["heavy"]["num_flavs_init"] = op["init"][1]
    th["heavy"]["num_flavs_max_pdf"] = 6
    th["heavy"]["intrinsic_flavors"] = [4]
    if which == "v1":
        th.pop("matching_order")  # did not exist: matching was done at the order of the evolution
        th["use_fhmv"] = th.pop("use_fhmruvv")
        if not fhm_key:
            th.pop("use_fhmv")  # files written before the key existed
    # operator: initial scale only, its flavour number was heavy.num_flavs_init
    op["mu0"] = op.pop("init")[0]
    if drop_cores:
        op["configs"].pop("n_integration_cores")
    op["eko_version"] = version
    # metadata: the grid lived under "bases"
    grid = md.pop("xgrid")
    md["bases"] = {"xgrid": grid}
    if extra_bases:
        md["bases"].update(inputgrid=None, targetgrid=None, inputpids=None, targetpids=None)
    md["version"] = version
    md["data_version"] = 1  # v0.14 never bumped the number on disk
    (root / "theory.yaml").write_text(yaml.safe_dump(th))
    (root / "operator.yaml").write_text(yaml.safe_dump(op))
    (root / "metadata.yaml").write_text(yaml.safe_dump(md))


def eval_archive(case):
    from eko.io.items import Operator
    from eko.io.struct import EKO

    res = Result()
    which = case["which"]
    cfg = _archive_cfg(case["order"], case["scheme"], case["nf_init"], case["fhm"], case["mo"])
    th, op = cards.build(cfg)
    path = cards.scratch_path("c41")
    work = path.with_name("w-" + path.stem)
    dest = path.with_name("x-" + path.stem)
    legacy = path.with_name("old-" + path.name)
    where = f"{which} archive (version {case['version']}) made from {case}"
    e = e2 = None
    model = {}
    S = f"{which}-archive"
    try:
        e = EKO.create(path).load_cards(th, op).build()
        for i, k in enumerate(AR_KEYS[case["nkeys"]]):
            a = cn.payload(AR_SHAPE, "special", salt=i)
            err = cn.payload(AR_SHAPE, "finite", salt=50 + i) if i % 2 == 0 else None
            e[k] = Operator(a, err)
            model[k] = (a, err)
        e.close()
        e = None
        with tarfile.open(path) as tar:
            tar.extractall(work, filter="data")
        to_legacy_layout(work, which, case["version"], case["extra_bases"], case["drop_cores"], case.get("fhm_key", True))
        with tarfile.open(legacy, "w") as tar:
            tar.add(work, arcname=".")
        try:
            e2 = EKO.read(legacy, dest=dest)
            nth = e2.theory_card
            nop = e2.operator_card
            md = e2.metadata
            keys = [(float(a), int(b)) for a, b in e2]
        except Exception as exc:  # noqa
            if case.get("foreign"):
                # no patch exists for this version: refusing the archive is the demanded behaviour
                res.outcome = f"{which}:foreign-version:refused"
                res.info = {"max_points": 0, "refused_with": type(exc).__name__}
                return res
            res.fail(f"{S}/read-raises", f"{where}: {type(exc).__name__}: {str(exc)[:300]}")
            res.outcome = f"{which}:read-raises"
            return res
        if case.get("foreign"):
            S = f"{which}-archive/foreign-version-accepted"  # it was read: then every setting must still be right
        # ---- theory: the mapping table
        T = f"{S}/theory"
        _chk(res, T, where, "order", nth.order, cfg["order"])
        _chk(res, T, where, "couplings.alphas", nth.couplings.alphas, th.couplings.alphas)
        _chk(res, T, where, "couplings.alphaem", nth.couplings.alphaem, th.couplings.alphaem)
        _chk(res, T, where, "couplings.em_running", nth.couplings.em_running, th.couplings.em_running)
        _chk(res, T, where, "couplings.ref", nth.couplings.ref, [91.2, 5])
        _chk(res, T, where, "heavy.masses", [list(m) for m in nth.heavy.masses], [list(m) for m in th.heavy.masses])
        _chk(res, T, where, "heavy.masses_scheme", _enum_name(nth.heavy.masses_scheme), case["scheme"])
        _chk(res, T, where, "heavy.matching_ratios", list(nth.heavy.matching_ratios), [1.0, 2.0, 0.5])
        _chk(res, T, where, "xif", nth.xif, 0.5)
        _chk(res, T, where, "n3lo_ad_variation", nth.n3lo_ad_variation, [0, 1, 0, 2, 0, 3, 0])
        if case.get("fhm_key", True):
            _chk(res, T, where, "use_fhmruvv", nth.use_fhmruvv, case["fhm"])
        elif type(nth.use_fhmruvv) is not bool:
            # a file without the key: io/v1.py supports v0.13.5 only, so just a definite value is demanded
            res.fail(f"{T}/use_fhmruvv", f"{where}: key absent in the file, loaded as {nth.use_fhmruvv!r}")
        # v0.13 had no separate matching order: matching conditions were taken at the order of the
        # evolution, i.e. (order_qcd - 1, 0) in today's convention; v0.14 stored it
        want_mo = [cfg["order"][0] - 1, 0] if which == "v1" else list(th.matching_order)
        _chk(res, T, where, "matching_order", nth.matching_order, want_mo)
        # ---- operator card
        O = f"{S}/operator"
        _chk(res, O, where, "init", nop.init, [1.65, case["nf_init"]])
        _chk(res, O, where, "mugrid", nop.mugrid, [[10.0, 4], [100.0, 5]])
        if np.asarray(nop.xgrid.raw).tobytes() != np.asarray(AR_GRID).tobytes():
            res.fail(f"{O}/xgrid", f"{where}: {nop.xgrid.raw.tolist()}")
        want_cfg = cn.canon(op.configs)
        got_cfg = cn.canon(nop.configs)
        want_cfg.pop("n_integration_cores")
        got_cfg.pop("n_integration_cores")
        d = cn.first_diff(want_cfg, got_cfg)
        if d:
            res.fail(f"{O}/configs", f"{where}: {d}")
        d = cn.first_diff(cn.canon(op.debug), cn.canon(nop.debug))
        if d:
            res.fail(f"{O}/debug", f"{where}: {d}")
        # ---- metadata
        M = f"{S}/metadata"
        _chk(res, M, where, "origin", md.origin, [1.65**2, case["nf_init"]])
        # the library version that wrote the file stays; the data version is the one struct.theory_card / operator_card
        # dispatch on (1: v0.13 layout, 2: v0.14 layout)
        _chk(res, M, where, "version", md.version, case["version"])
        if not case.get("foreign"):
            _chk(res, M, where, "data_version", md.data_version, 1 if which == "v1" else 2)
        if np.asarray(md.xgrid.raw).tobytes() != np.asarray(AR_GRID).tobytes():
            res.fail(f"{M}/xgrid", f"{where}: {md.xgrid.raw.tolist()}")
        # ---- evolution points and operators
        if sorted(keys) != sorted(model) or len(keys) != len(set(keys)):
            res.fail(f"{S}/keys", f"{where}: {sorted(keys)} expected {sorted(model)}")
        else:
            for k, (a, err) in model.items():
                o = e2[k]
                d = cn.same_bits(o.operator, a)
                if d:
                    res.fail(f"{S}/operator-bits", f"{where}: at {k}: {d}")
                if (o.error is None) != (err is None) or (err is not None and cn.same_bits(o.error, err)):
                    res.fail(f"{S}/error-bits", f"{where}: at {k}")
        e2.close()
        res.outcome = f"{which}:n={len(model)}:" + ("ok" if not res.fails else "differs")
        res.info = {"max_points": len(model)}
        return res
    finally:
        for x in (e, e2):
            try:
                if x is not None and x.access.open:
                    shutil.rmtree(x.metadata.path, ignore_errors=True)
            except Exception:
                pass
        for d_ in (work, dest):
            shutil.rmtree(d_, ignore_errors=True)
        for p in (path, legacy):
            try:
                os.unlink(p)
            except OSError:
                pass


def evaluate(case):
    res = dict(
        **{"legacy-theory": eval_legacy_theory, "legacy-operator": eval_legacy_operator, "archive": eval_archive}
    )[case["kind"]](case)
    first, count = {}, {}
    for f in res.fails:
        count[f.signature] = count.get(f.signature, 0) + 1
        first.setdefault(f.signature, f)
    for sig, f in first.items():
        if count[sig] > 1:
            f.message += f"  [{count[sig]} inner points of this case fail alike]"
    res.fails = list(first.values())
    return res


def run(ctx):
    cases = []
    for pto, qed, hq in itertools.product([0, 1, 2, 3], [0, 1, 2], ["POLE", "MSBAR"]):
        cases.append(dict(kind="legacy-theory", pto=pto, qed=qed, hq=hq))
        cases.append(dict(kind="legacy-operator", pto=pto, qed=qed, hq=hq))
    n_cards = len(cases)
    if ctx.thorough():
        dims = dict(nf_init=[3, 4], fhm=[True, False], nkeys=[0, 1, 3], extra_bases=[True, False], drop_cores=[False, True])
    else:
        dims = dict(nf_init=[4], fhm=[True, False], nkeys=[3], extra_bases=[True], drop_cores=[False])
    for which in ("v1", "v2"):
        for version, order, scheme in itertools.product(VERSIONS[which], AR_ORDERS, ["POLE", "MSBAR"]):
            for inner in cn_product(dims):
                for mo in ["default"] if which == "v1" else ["default", "lower"]:
                    cases.append(dict(kind="archive", which=which, version=version, order=order, scheme=scheme, mo=mo, **inner))
    n_base = len(cases) - n_cards
    base = dict(nf_init=4, fhm=True, nkeys=3, extra_bases=True, drop_cores=False)
    mos = {"v1": ["default"], "v2": ["default", "lower"]}
    extra = []
    # initial flavour number 3 with reference flavour number 5: distinguishes num_flavs_init from num_flavs_ref and from the default 4
    if not ctx.thorough():
        for which in ("v1", "v2"):
            for version, order, scheme, mo in itertools.product(VERSIONS[which], AR_ORDERS, ["POLE", "MSBAR"], mos[which]):
                extra.append(dict(kind="archive", which=which, version=version, order=order, scheme=scheme, mo=mo, **dict(base, nf_init=3)))
    # v0.13 files written before the use_fhmv key existed
    for version, order, scheme in itertools.product(VERSIONS["v1"] if ctx.thorough() else VERSIONS["v1"][:1], AR_ORDERS, ["POLE", "MSBAR"]):
        extra.append(dict(kind="archive", which="v1", version=version, order=order, scheme=scheme, mo="default", fhm_key=False, **base))
    # version strings with further segments; versions without a patch
    for which in ("v1", "v2"):
        for version, order, mo in itertools.product(VERSIONS_ODD[which], AR_ORDERS if ctx.thorough() else [[2, 0], [4, 0]], mos[which][:1]):
            extra.append(dict(kind="archive", which=which, version=version, order=order, scheme="POLE", mo=mo, **dict(base, nf_init=3)))
    for (which, version), scheme in itertools.product(zip(("v1", "v2"), VERSIONS_FOREIGN), ["POLE", "MSBAR"]):
        extra.append(dict(kind="archive", which=which, version=version, order=[2, 0], scheme=scheme, mo="default", foreign=True, **base))
    cases += extra
    results = ctx.run_cases(cases, evaluate)
    inner = sum((r[1][3] or {}).get("max_inner_points", 0) for r in results)
    ctx.rule = (
        f"legacy runcards: PTO 0-3 x QED 0-2 x HQ POLE/MSBAR, each with the complete inner product of theory settings "
        f"({len(list(cn_product(TH_INNER)))}: coupling key, QED reference, ratios, nfref, PTO_matching, MSbar references, XIF) and of "
        f"operator settings ({len(list(cn_product(OP_INNER)))}: {len(MODEV)} ModEv spellings, 3 ModSV, nf0, Q0 below/on/above a wall, 3 grid "
        f"spellings, ratios; 6 target scales each), each united with the complete product of the further settings at the base point "
        f"(theory {len(list(cn_product(TH_EXTRA)))}: 6 spellings of the electromagnetic coupling incl. none / None-valued / both, N3LO variation key, "
        f"use_fhmruvv key; operator {len(list(cn_product(OP_EXTRA)))}: backward_inversion in the operator card / absent, grid as list or generator spec, "
        f"log flag, polarised/time-like, degree) = {inner} conversions; archives: {n_base} synthetic v0.13 / v0.14 "
        "archives over 2 version strings x 5 orders x 2 schemes x "
        + ("{nf_init, fhm flag, 0/1/3 operators, bases layout, n_integration_cores key}" if ctx.thorough() else "fhm flag (3 operators)")
        + f" + {len(extra)} further ones ("
        + ("" if ctx.thorough() else "initial nf 3 with reference nf 5; ")
        + "v0.13 files without the use_fhmv key; version strings with post / rc / dev / local segments; old-layout files of versions "
        "0.12 / 0.15 for which no patch exists: refusal or correct settings); metadata version / data_version asserted; non-trivial = all"
    )
    ctx.assumptions += [
        "legacy layout of v0.13 / v0.14 archives reconstructed from eko/io/v1.py, v2.py, metadata.py (no genuine file offline)",
        "a v0.13 archive's implicit matching order is (order_qcd - 1, 0), as TheoryCard's documented default and Legacy assume",
        "em_running of a legacy card is checked only where unambiguous (no Qedref / Qedref == Qref / Qedref far from Qref)",
        "default flavour number = 3 + number of (m k)^2 <= mu^2; MSbar masses taken at their own scale for this purpose",
        "backward_inversion is a key of the legacy OPERATOR card (ekomark/data/db.py Operator.backward_inversion, default_card); "
        "a legacy card without the key, or with the key in the theory card, is not asserted",
        "not asserted: n_integration_cores; ev_op_max_order given as a list (the legacy operator table declares it Integer: "
        "not an input of the old format); a legacy theory card without the ModSV key (banana's theory cards always carry it, "
        "default None; the meaning of its absence is not determined by the property)",
        "a legacy interpolation_xgrid given as a generator spec (['make_grid', n, m] / ['lambertgrid', n], the input of XGrid.fromcard) "
        "may be refused with a ValueError (counted in max_generator_spec_grids_refused): that the old format allowed the spelling is "
        "not established; if it is converted, the generated grid is demanded",
        "electromagnetic coupling: a key holding None carries no setting; alphaqed and alphaem both present with different values "
        "is not explored (ambiguous); with no coupling at all the neutral value 0 is demanded for QED = 0 only",
        "a legacy theory card without use_fhmruvv gets the documented default of the current TheoryCard; without n3lo_ad_variation the central one",
        "couplings.ref of a legacy card with nfref = None is accepted as (Qref, None): the table states the legacy meaning literally, "
        "whether a current card needs a number there is not decided here",
        "a v0.13 file without the use_fhmv key must load with a definite bool (io/v1.py declares only v0.13.5 supported: the value is not asserted)",
    ]
