"""C41 legacy runcards and archives upgrade to equivalent current structures (X-num).

Part A (kind="legacy-theory" / "legacy-operator"): synthetic flat legacy runcards over
PTO x QED x HQ (outer) x {coupling spellings, QED reference, matching ratios, nfref, PTO_matching,
MSbar reference scales} resp. {ModEv spellings, ModSV, nf0, Q0, grid spelling, ratios} (inner,
complete products) through `eko.io.runcards.Legacy`; oracle = the field-mapping table below,
written from the meaning of the legacy keys, not from the converter.

Part B (kind="archive"): a current EKO is created with known cards and operators, then rewritten
into the on-disk layout of v0.13 ("data version 1") resp. v0.14 ("data version 2") by the
inverse of the documented format change (couplings.ref <- scale + num_flavs_ref, init <- mu0 +
heavy.num_flavs_init, metadata.xgrid <- bases.xgrid, use_fhmruvv <- use_fhmv, no matching_order in
v0.13), re-tarred and read with `EKO.read`; the structures it presents must carry the settings the
archive was made from, and the operators bit for bit.
"""

import copy
import itertools
import math
import os
import shutil
import tarfile

import numpy as np

from vf.core import cards
from vf.core.ctx import Result
from vf.ref import c36_canon as cn

ID = "C41"
LEVEL = "exploration"
TECHNIQUE = "complete products of synthetic legacy runcards and synthetic v0.13/v0.14 archives against an independent field-mapping table"
LEVEL_TEXT = (
    "every enumerated legacy runcard pair is converted by the real Legacy class and every synthetic old-layout "
    "archive is read by the real EKO.read; each physical setting of the result is compared with a hand-written "
    "mapping from the legacy keys, operators bit for bit"
)
LEVEL_NOTE = (
    "the legacy archives are synthesised (no genuine v0.13/v0.14 file is available offline): the old layout is "
    "reconstructed as the inverse of what eko/io/v1.py, v2.py and metadata.py undo, so a misunderstanding shared "
    "with those modules would go unseen; trusted: the mapping table in this file, vf/ref/c36_canon.py"
)
FLOOR_NONTRIVIAL = 20

# =============================================================================== part A
MODEV = {
    "EXA": "ITERATE_EXACT",
    "EXP": "ITERATE_EXPANDED",
    "TRN": "TRUNCATED",
    "iterate-exact": "ITERATE_EXACT",
    "iterate-expanded": "ITERATE_EXPANDED",
    "perturbative-exact": "PERTURBATIVE_EXACT",
    "perturbative-expanded": "PERTURBATIVE_EXPANDED",
    "truncated": "TRUNCATED",
    "ordered-truncated": "ORDERED_TRUNCATED",
    "decompose-exact": "DECOMPOSE_EXACT",
    "decompose-expanded": "DECOMPOSE_EXPANDED",
}
MODSV = {None: None, "expanded": "EXPANDED", "exponentiated": "EXPONENTIATED"}
MASSES = [1.51, 4.5, 172.5]
RATIOS = [[1.0, 1.0, 1.0], [0.5, 1.0, 2.0]]
QREF = 91.2

TH_INNER = dict(
    alpha_key=["alphaqed", "alphaem"],
    qedref=["absent", "same", "far"],
    ratios=RATIOS,
    nfref=[None, 5],
    pto_matching=["absent", [1, 0]],
    qm=["same", "other"],
    xif=[1.0, 2.0],
)
OP_INNER = dict(
    modev=list(MODEV),
    modsv=list(MODSV),
    nf0=[None, 3, 4],
    q0=[1.65, 4.5, 10.0],
    spelling=["mugrid", "Q2grid", "mu2grid"],
    ratios=RATIOS,
)
# linear target scales: below charm, between, exactly on the bottom wall for ratio 1 (4.5), above top
MUS = [1.0, 2.0, 4.5, 10.0, 100.0, 400.0]


def legacy_theory(pto, qed, hq, alpha_key="alphaqed", qedref="absent", ratios=RATIOS[0], nfref=5,
                  pto_matching="absent", qm="same", xif=1.0, modev="EXA", modsv=None, nf0=None, q0=1.65):
    t = dict(
        ID=7, PTO=pto, QED=qed, FNS="ZM-VFNS", DAMP=0, IC=0, IB=0, ModEv=modev, ModSV=modsv, XIR=1.0, XIF=xif,
        NfFF=5, MaxNfAs=6, MaxNfPdf=6, Q0=q0, alphas=0.118, Qref=QREF, nf0=nf0, nfref=nfref, SxRes=0, SxOrd="LL",
        HQ=hq, mc=MASSES[0], mb=MASSES[1], mt=MASSES[2], kcThr=ratios[0], kbThr=ratios[1], ktThr=ratios[2],
        Comments="synthetic",
    )
    t[alpha_key] = 0.0078125
    qms = list(MASSES) if qm == "same" else [2.0, 5.0, 160.0]
    t["Qmc"], t["Qmb"], t["Qmt"] = qms
    if qedref == "same":
        t["Qedref"] = QREF
    elif qedref == "far":
        t["Qedref"] = 1.777
    if pto_matching != "absent":
        t["PTO_matching"] = list(pto_matching)
    return t


def legacy_operator(spelling="mugrid", mus=MUS):
    o = dict(
        interpolation_xgrid=[1e-3, 1e-2, 0.1, 0.5, 1.0], interpolation_polynomial_degree=3, interpolation_is_log=True,
        ev_op_max_order=7, ev_op_iterations=4, backward_inversion="expanded", n_integration_cores=2,
        debug_skip_non_singlet=False, debug_skip_singlet=True, polarized=False, time_like=True,
        inputgrid=None, targetgrid=None, inputpids=None, targetpids=None,
    )
    if spelling == "mugrid":
        o["mugrid"] = list(mus)
    else:
        o[spelling] = [m * m for m in mus]
    return o


def ref_nf(mu, ratios):
    """Default flavour number: 3 + number of matching scales (m k)^2 <= mu^2 (a point on a wall is above it)."""
    return 3 + sum(1 for m, k in zip(MASSES, ratios) if (m * k) ** 2 <= mu * mu)


def _enum_name(x):
    return None if x is None else x.name


def _chk(res, sig, where, name, got, want, tol=0.0):
    """One row of the mapping table."""
    ok = False
    if isinstance(want, float) and isinstance(got, (int, float)) and not isinstance(got, bool):
        if math.isnan(want):
            ok = isinstance(got, float) and math.isnan(got)
        else:
            ok = abs(got - want) <= tol * abs(want)
    else:
        ok = cn.first_diff(cn.canon(got), cn.canon(want)) is None
    if not ok:
        res.fail(f"{sig}/{name}", f"{where}: new {name} = {got!r}, legacy card means {want!r}")
    return ok


def eval_legacy_theory(case):
    from eko.io.runcards import Legacy

    res = Result()
    n = 0
    for inner in cn_product(TH_INNER):
        if case["hq"] == "POLE" and inner["qm"] == "other":
            continue  # reference scales are unused for pole masses
        t = legacy_theory(case["pto"], case["qed"], case["hq"], **inner)
        where = f"legacy theory PTO={case['pto']} QED={case['qed']} HQ={case['hq']} {inner}"
        try:
            new = Legacy(copy.deepcopy(t), legacy_operator()).new_theory
        except Exception as exc:  # noqa
            res.fail("Legacy.new_theory/raises", f"{where}: {type(exc).__name__}: {exc}")
            continue
        n += 1
        S = "Legacy.new_theory"
        _chk(res, S, where, "order", new.order, [case["pto"] + 1, case["qed"]])
        _chk(res, S, where, "couplings.alphas", new.couplings.alphas, 0.118)
        _chk(res, S, where, "couplings.alphaem", new.couplings.alphaem, 0.0078125)
        _chk(res, S, where, "couplings.ref", new.couplings.ref, [QREF, inner["nfref"]])
        _chk(res, S, where, "couplings.em_running", new.couplings.em_running, inner["qedref"] == "same")
        qms = MASSES if inner["qm"] == "same" else [2.0, 5.0, 160.0]
        for i, q in enumerate("cbt"):
            m = new.heavy.masses[i]
            _chk(res, S, where, "heavy.masses.value", m[0], MASSES[i])
            _chk(res, S, where, "heavy.masses.scale", m[1], math.nan if case["hq"] == "POLE" else float(qms[i]))
        _chk(res, S, where, "heavy.masses_scheme", _enum_name(new.heavy.masses_scheme), case["hq"])
        _chk(res, S, where, "heavy.matching_ratios", list(new.heavy.matching_ratios), inner["ratios"])
        _chk(res, S, where, "xif", new.xif, inner["xif"])
        want_mo = [case["pto"], 0] if inner["pto_matching"] == "absent" else inner["pto_matching"]
        _chk(res, S, where, "matching_order", new.matching_order, want_mo)
    res.info = {"max_inner_points": n}
    res.outcome = "legacy-theory:" + ("ok" if not res.fails else "fails")
    return res


def eval_legacy_operator(case):
    from eko.io.runcards import Legacy

    res = Result()
    n = 0
    maxdev = 0.0
    for inner in cn_product(OP_INNER):
        t = legacy_theory(
            case["pto"], case["qed"], case["hq"], ratios=inner["ratios"], modev=inner["modev"], modsv=inner["modsv"],
            nf0=inner["nf0"], q0=inner["q0"],
        )
        o = legacy_operator(inner["spelling"])
        where = f"legacy cards PTO={case['pto']} QED={case['qed']} HQ={case['hq']} {inner}"
        try:
            new = Legacy(copy.deepcopy(t), copy.deepcopy(o)).new_operator
        except Exception as exc:  # noqa
            res.fail("Legacy.new_operator/raises", f"{where}: {type(exc).__name__}: {exc}")
            continue
        n += 1
        S = "Legacy.new_operator"
        want_nf0 = inner["nf0"] if inner["nf0"] is not None else ref_nf(inner["q0"], inner["ratios"])
        _chk(res, S, where, "init", new.init, [inner["q0"], want_nf0])
        if len(new.mugrid) != len(MUS):
            res.fail(f"{S}/mugrid-length", f"{where}: {new.mugrid}")
        else:
            for (mu, nf), want in zip(new.mugrid, MUS):
                dev = abs(mu - want) / want
                maxdev = max(maxdev, dev)
                if dev > 4e-16:
                    res.fail(f"{S}/mugrid-scale/{inner['spelling']}", f"{where}: scale {mu!r}, legacy grid means {want!r}")
                if nf != ref_nf(want, inner["ratios"]):
                    res.fail(f"{S}/mugrid-nf", f"{where}: scale {want} got nf={nf}, default flow gives {ref_nf(want, inner['ratios'])}")
        if np.asarray(new.xgrid.raw).tobytes() != np.asarray(o["interpolation_xgrid"], dtype=float).tobytes():
            res.fail(f"{S}/xgrid", f"{where}: {new.xgrid.raw.tolist()} vs {o['interpolation_xgrid']}")
        c = new.configs
        _chk(res, S, where, "evolution_method", _enum_name(c.evolution_method), MODEV[inner["modev"]])
        _chk(res, S, where, "scvar_method", _enum_name(c.scvar_method), MODSV[inner["modsv"]])
        _chk(res, S, where, "ev_op_max_order", c.ev_op_max_order, [7, case["qed"]])
        _chk(res, S, where, "ev_op_iterations", c.ev_op_iterations, 4)
        _chk(res, S, where, "interpolation_polynomial_degree", c.interpolation_polynomial_degree, 3)
        _chk(res, S, where, "interpolation_is_log", c.interpolation_is_log, True)
        _chk(res, S, where, "polarized", c.polarized, False)
        _chk(res, S, where, "time_like", c.time_like, True)
        _chk(res, S, where, "debug.skip_singlet", new.debug.skip_singlet, True)
        _chk(res, S, where, "debug.skip_non_singlet", new.debug.skip_non_singlet, False)
    res.info = {"max_inner_points": n, "max_scale_reldev": maxdev}
    res.outcome = "legacy-operator:" + ("ok" if not res.fails else "fails")
    return res


def cn_product(dims):
    names = list(dims)
    for vals in itertools.product(*(dims[n] for n in names)):
        yield dict(zip(names, vals))


# =============================================================================== part B
VERSIONS = {"v1": ["0.13.5", "0.13.0"], "v2": ["0.14.0", "0.14.6"]}
AR_ORDERS = [[1, 0], [2, 0], [3, 0], [4, 0], [2, 1]]
AR_KEYS = {
    0: [],
    1: [(10000.0, 5)],
    3: [(10.0, 4), (float(np.nextafter(10.0, np.inf)), 4), (1.0e4, 5)],
}
AR_SHAPE = (2, 3, 2, 3)
AR_GRID = [0.1, 0.5, 1.0]


def _archive_cfg(order, scheme, nf_init, fhm, mo="default"):
    cfg = dict(
        order=order, scheme=scheme, xgrid=AR_GRID, init=[1.65, nf_init], ref=[91.2, 5], ratios=[1.0, 2.0, 0.5],
        mugrid=[[10.0, 4], [100.0, 5]], use_fhmruvv=fhm, method="truncated", sv="expanded", inversion="exact",
        iterations=3, degree=2, xif=0.5, cores=1, n3lo_ad_variation=[0, 1, 0, 2, 0, 3, 0],
    )
    if mo != "default":
        cfg["matching_order"] = [max(order[0] - 2, 0), 0]
    if scheme == "MSBAR":
        cfg["mass_refs"] = [2.0, 4.5, 173.07]
    if order[1] > 0:
        cfg["em_running"] = True
    return cfg


def to_legacy_layout(root, which, version, extra_bases, drop_cores):
    """Rewrite theory.yaml / operator.yaml / metadata.yaml of an extracted current EKO in the old layout."""
    import yaml

    th = yaml.safe_load((root / "theory.yaml").read_text())
    op = yaml.safe_load((root / "operator.yaml").read_text())
    md = yaml.safe_load((root / "metadata.yaml").read_text())
    # theory: one reference point -> scale + flavour number; FNS bookkeeping lived in the theory card
    ref = th["couplings"].pop("ref")
    th["couplings"]["scale"] = ref[0]
    th["couplings"]["num_flavs_ref"] = ref[1]
    th["couplings"]["max_num_flavs"] = 6
    th["heavy"]["num_flavs_init"] = op["init"][1]
    th["heavy"]["num_flavs_max_pdf"] = 6
    th["heavy"]["intrinsic_flavors"] = [4]
    if which == "v1":
        th.pop("matching_order")  # did not exist: matching was done at the order of the evolution
        th["use_fhmv"] = th.pop("use_fhmruvv")
    # operator: initial scale only, its flavour number was heavy.num_flavs_init
    op["mu0"] = op.pop("init")[0]
    if drop_cores:
        op["configs"].pop("n_integration_cores")
    op["eko_version"] = version
    # metadata: the grid lived under "bases"
    grid = md.pop("xgrid")
    md["bases"] = {"xgrid": grid}
    if extra_bases:
        md["bases"].update(inputgrid=None, targetgrid=None, inputpids=None, targetpids=None)
    md["version"] = version
    md["data_version"] = 1  # v0.14 never bumped the number on disk
    (root / "theory.yaml").write_text(yaml.safe_dump(th))
    (root / "operator.yaml").write_text(yaml.safe_dump(op))
    (root / "metadata.yaml").write_text(yaml.safe_dump(md))


def eval_archive(case):
    from eko.io.items import Operator
    from eko.io.struct import EKO

    res = Result()
    which = case["which"]
    cfg = _archive_cfg(case["order"], case["scheme"], case["nf_init"], case["fhm"], case["mo"])
    th, op = cards.build(cfg)
    path = cards.scratch_path("c41")
    work = path.with_name("w-" + path.stem)
    dest = path.with_name("x-" + path.stem)
    legacy = path.with_name("old-" + path.name)
    where = f"{which} archive (version {case['version']}) made from {case}"
    e = e2 = None
    model = {}
    S = f"{which}-archive"
    try:
        e = EKO.create(path).load_cards(th, op).build()
        for i, k in enumerate(AR_KEYS[case["nkeys"]]):
            a = cn.payload(AR_SHAPE, "special", salt=i)
            err = cn.payload(AR_SHAPE, "finite", salt=50 + i) if i % 2 == 0 else None
            e[k] = Operator(a, err)
            model[k] = (a, err)
        e.close()
        e = None
        with tarfile.open(path) as tar:
            tar.extractall(work, filter="data")
        to_legacy_layout(work, which, case["version"], case["extra_bases"], case["drop_cores"])
        with tarfile.open(legacy, "w") as tar:
            tar.add(work, arcname=".")
        try:
            e2 = EKO.read(legacy, dest=dest)
            nth = e2.theory_card
            nop = e2.operator_card
            md = e2.metadata
            keys = [(float(a), int(b)) for a, b in e2]
        except Exception as exc:  # noqa
            res.fail(f"{S}/read-raises", f"{where}: {type(exc).__name__}: {str(exc)[:300]}")
            res.outcome = f"{which}:read-raises"
            return res
        # ---- theory: the mapping table
        T = f"{S}/theory"
        _chk(res, T, where, "order", nth.order, cfg["order"])
        _chk(res, T, where, "couplings.alphas", nth.couplings.alphas, th.couplings.alphas)
        _chk(res, T, where, "couplings.alphaem", nth.couplings.alphaem, th.couplings.alphaem)
        _chk(res, T, where, "couplings.em_running", nth.couplings.em_running, th.couplings.em_running)
        _chk(res, T, where, "couplings.ref", nth.couplings.ref, [91.2, 5])
        _chk(res, T, where, "heavy.masses", [list(m) for m in nth.heavy.masses], [list(m) for m in th.heavy.masses])
        _chk(res, T, where, "heavy.masses_scheme", _enum_name(nth.heavy.masses_scheme), case["scheme"])
        _chk(res, T, where, "heavy.matching_ratios", list(nth.heavy.matching_ratios), [1.0, 2.0, 0.5])
        _chk(res, T, where, "xif", nth.xif, 0.5)
        _chk(res, T, where, "n3lo_ad_variation", nth.n3lo_ad_variation, [0, 1, 0, 2, 0, 3, 0])
        _chk(res, T, where, "use_fhmruvv", nth.use_fhmruvv, case["fhm"])
        # v0.13 had no separate matching order: matching conditions were taken at the order of the
        # evolution, i.e. (order_qcd - 1, 0) in today's convention; v0.14 stored it
        want_mo = [cfg["order"][0] - 1, 0] if which == "v1" else list(th.matching_order)
        _chk(res, T, where, "matching_order", nth.matching_order, want_mo)
        # ---- operator card
        O = f"{S}/operator"
        _chk(res, O, where, "init", nop.init, [1.65, case["nf_init"]])
        _chk(res, O, where, "mugrid", nop.mugrid, [[10.0, 4], [100.0, 5]])
        if np.asarray(nop.xgrid.raw).tobytes() != np.asarray(AR_GRID).tobytes():
            res.fail(f"{O}/xgrid", f"{where}: {nop.xgrid.raw.tolist()}")
        want_cfg = cn.canon(op.configs)
        got_cfg = cn.canon(nop.configs)
        want_cfg.pop("n_integration_cores")
        got_cfg.pop("n_integration_cores")
        d = cn.first_diff(want_cfg, got_cfg)
        if d:
            res.fail(f"{O}/configs", f"{where}: {d}")
        d = cn.first_diff(cn.canon(op.debug), cn.canon(nop.debug))
        if d:
            res.fail(f"{O}/debug", f"{where}: {d}")
        # ---- metadata
        M = f"{S}/metadata"
        _chk(res, M, where, "origin", md.origin, [1.65**2, case["nf_init"]])
        if np.asarray(md.xgrid.raw).tobytes() != np.asarray(AR_GRID).tobytes():
            res.fail(f"{M}/xgrid", f"{where}: {md.xgrid.raw.tolist()}")
        # ---- evolution points and operators
        if sorted(keys) != sorted(model) or len(keys) != len(set(keys)):
            res.fail(f"{S}/keys", f"{where}: {sorted(keys)} expected {sorted(model)}")
        else:
            for k, (a, err) in model.items():
                o = e2[k]
                d = cn.same_bits(o.operator, a)
                if d:
                    res.fail(f"{S}/operator-bits", f"{where}: at {k}: {d}")
                if (o.error is None) != (err is None) or (err is not None and cn.same_bits(o.error, err)):
                    res.fail(f"{S}/error-bits", f"{where}: at {k}")
        e2.close()
        res.outcome = f"{which}:n={len(model)}:" + ("ok" if not res.fails else "differs")
        res.info = {"max_points": len(model)}
        return res
    finally:
        for x in (e, e2):
            try:
                if x is not None and x.access.open:
                    shutil.rmtree(x.metadata.path, ignore_errors=True)
            except Exception:
                pass
        for d_ in (work, dest):
            shutil.rmtree(d_, ignore_errors=True)
        for p in (path, legacy):
            try:
                os.unlink(p)
            except OSError:
                pass


def evaluate(case):
    res = dict(
        **{"legacy-theory": eval_legacy_theory, "legacy-operator": eval_legacy_operator, "archive": eval_archive}
    )[case["kind"]](case)
    first, count = {}, {}
    for f in res.fails:
        count[f.signature] = count.get(f.signature, 0) + 1
        first.setdefault(f.signature, f)
    for sig, f in first.items():
        if count[sig] > 1:
            f.message += f"  [{count[sig]} inner points of this case fail alike]"
    res.fails = list(first.values())
    return res


def run(ctx):
    cases = []
    for pto, qed, hq in itertools.product([0, 1, 2, 3], [0, 1, 2], ["POLE", "MSBAR"]):
        cases.append(dict(kind="legacy-theory", pto=pto, qed=qed, hq=hq))
        cases.append(dict(kind="legacy-operator", pto=pto, qed=qed, hq=hq))
    n_cards = len(cases)
    if ctx.thorough():
        dims = dict(nf_init=[3, 4], fhm=[True, False], nkeys=[0, 1, 3], extra_bases=[True, False], drop_cores=[False, True])
    else:
        dims = dict(nf_init=[4], fhm=[True, False], nkeys=[3], extra_bases=[True], drop_cores=[False])
    for which in ("v1", "v2"):
        for version, order, scheme in itertools.product(VERSIONS[which], AR_ORDERS, ["POLE", "MSBAR"]):
            for inner in cn_product(dims):
                for mo in ["default"] if which == "v1" else ["default", "lower"]:
                    cases.append(dict(kind="archive", which=which, version=version, order=order, scheme=scheme, mo=mo, **inner))
    results = ctx.run_cases(cases, evaluate)
    inner = sum((r[1][3] or {}).get("max_inner_points", 0) for r in results)
    ctx.rule = (
        f"legacy runcards: PTO 0-3 x QED 0-2 x HQ POLE/MSBAR, each with the complete inner product of theory settings "
        f"({len(list(cn_product(TH_INNER)))}: coupling key, QED reference, ratios, nfref, PTO_matching, MSbar references, XIF) and of "
        f"operator settings ({len(list(cn_product(OP_INNER)))}: {len(MODEV)} ModEv spellings, 3 ModSV, nf0, Q0 below/on/above a wall, 3 grid "
        f"spellings, ratios; 6 target scales each) = {inner} conversions; archives: {len(cases) - n_cards} synthetic v0.13 / v0.14 "
        "archives over 2 version strings x 5 orders x 2 schemes x "
        + ("{nf_init, fhm flag, 0/1/3 operators, bases layout, n_integration_cores key}" if ctx.thorough() else "fhm flag (3 operators)")
        + "; non-trivial = all"
    )
    ctx.assumptions += [
        "legacy layout of v0.13 / v0.14 archives reconstructed from eko/io/v1.py, v2.py, metadata.py (no genuine file offline)",
        "a v0.13 archive's implicit matching order is (order_qcd - 1, 0), as TheoryCard's documented default and Legacy assume",
        "em_running of a legacy card is checked only where unambiguous (no Qedref / Qedref == Qref / Qedref far from Qref)",
        "default flavour number = 3 + number of (m k)^2 <= mu^2; MSbar masses taken at their own scale for this purpose",
        "not asserted: backward_inversion, n_integration_cores, ev_op_max_order given as a list (see report)",
    ]
