"""C43 applying an EKO to a PDF is the operator contraction.

Synthetic EKO archives are built with EKO.create(path).load_cards(theory, operator).build(), filled with
deterministic operator tensors for 3 evolution points (with and without error tensors), closed, re-opened
read-only and passed to ekobox.apply.apply_pdf / apply_pdf_flavor / apply_grids together with a PDF-like object
(hasFlavor / xfxQ2) from a fixed family (incl. missing flavours, for which xfxQ2 would return garbage).

Oracle (nothing of ekobox or eko.basis_rotation is used):
  * plain: result[ep][pid][j] = sum_{b,k} O_ep[a,j,b,k] * xf_b(x_k, mu0^2) / x_k  (np.tensordot), pids in the PDG
    flavour order; evolution points = those stored; errors present exactly for the operators that carry one and
    equal to the same contraction of the error tensor;
  * rotate_to_evolution_basis: the same result multiplied by the evolution (QCD) resp. unified evolution (QED)
    rotation typed from the documented definitions, with the documented labels;
  * target grid: (i) operators whose outputs are polynomials of degree <= interpolation degree in ln x (x for a
    linear grid): the result at the target points must equal the exact polynomial values (50 digit reference);
    (ii) dense operators: the result must equal the grid result multiplied by the matrix of basis-function
    values at the target points, evaluated one by one through the public x-space basis
    (InterpolatorDispatcher(...)[j].evaluate_x(y); its correctness is C34).
"""

import math
import warnings

import numpy as np

from vf.core import cards
from vf.core.ctx import Result
from vf.ref import c34_bases as B
from vf.ref import c34_grids as G

ID = "C43"
LEVEL = "exploration"
TECHNIQUE = "exhaustive lattice of synthetic EKO archives x PDF-like inputs x (rotation, target grid) options; results compared with tensordot contractions, typed rotations and exact polynomial values"
LEVEL_TEXT = (
    "for every lattice point a real EKO archive is created, re-opened and applied; every returned number (all "
    "evolution points, all 14 labels, all grid points, values and errors) is compared with an independent "
    "contraction, the typed basis rotation and the exact (polynomial) or basis-function re-interpolation; target "
    "points also unsorted / repeated; theory orders (1,0), (1,1), (3,2), (1,2), (3,0); 1, 2, 3, 14 replicas"
)
LEVEL_NOTE = (
    "decides the property on the lattice only; 'its re-interpolation' for dense operators uses eko's own x-space "
    "basis functions point by point (verified separately by C34) -- only apply's plumbing (degree, grid, axis, "
    "order of rotation and interpolation) is judged there; errors are checked as the same linear pipeline applied "
    "to the error tensor (what the docstring describes)"
)
FLOOR_NONTRIVIAL = 20

EPS = float(np.finfo(float).eps)
MUGRID = [[10.0, 5], [20.0, 5], [100.0, 6]]
EPS_KEYS = [(100.0, 5), (400.0, 5), (10000.0, 6)]
# optional 4th stored operator: same scale as the 2nd one, other number of flavours (an evolution point is the PAIR)
MUGRID4 = MUGRID + [[20.0, 6]]
EPS_KEYS4 = EPS_KEYS + [(400.0, 6)]
MU0 = 1.65


# ------------------------------------------------------------------------------------------------
# PDF-like family
# ------------------------------------------------------------------------------------------------
MISSING = {
    "none": [],
    "photon": [22],
    "heavy": [22, 5, -5, 6, -6, 4],
    "gluon-only": [p for p in B.FLAVOR_PIDS if p != 21],
    "all": list(B.FLAVOR_PIDS),
}


class PdfLike:
    """xf_pid(x, Q2) = x^a (1-x)^b * c * (1 + 0.1 ln Q2); flavours listed as missing return garbage if asked."""

    def __init__(self, kind, missing):
        self.kind = kind
        self.missing = set(missing)
        self.calls = []

    def hasFlavor(self, pid):
        return pid not in self.missing

    def xf(self, pid, x, Q2):
        i = B.FLAVOR_PIDS.index(pid)
        if self.kind == "toy":
            a, b, c = 0.8 - 0.05 * i, 1.0 + 0.3 * (i % 4), 1.0 + 0.1 * i
        else:  # "steep": small-x rise, sign changes between flavours
            a, b, c = -0.2 + 0.02 * i, 3.0 + 0.5 * (i % 3), (-1.0) ** i * (0.5 + 0.07 * i)
        return c * x**a * (1.0 - x) ** b * (1.0 + 0.1 * math.log(Q2)) + 0.001 * i * x

    def xfxQ2(self, pid, x, Q2):
        self.calls.append((pid, Q2))
        if pid in self.missing:
            return 1.0e3 + pid
        return self.xf(pid, x, Q2)


# ------------------------------------------------------------------------------------------------
def _operators(kind, n, d, QX, npoints=3):
    """list of (operator, error | None, W | None) for the three (four) evolution points."""
    out = []
    for i in range(npoints):
        if kind == "poly":
            W = B.tensor((d + 1, 14, 14, n), phase=0.4 + i)
            O = np.einsum("jm,mabk->ajbk", QX, W)
        else:
            W = None
            O = B.tensor((14, n, 14, n), phase=0.7 * i)
        E = None if i == 1 else 0.01 * B.tensor((14, n, 14, n), phase=2.0 + i)  # signed "errors"
        out.append((O, E, W))
    return out


def target_points(g, name):
    if name is None:
        return None
    if name == "midpoints":
        return [(a * b) ** 0.5 for a, b in zip(g, g[1:])]
    if name == "refined":
        return sorted(set(list(g) + [(a * b) ** 0.5 for a, b in zip(g, g[1:])]))
    if name == "nodes":
        return list(g)
    if name == "same-length":
        return [a**0.6 * b**0.4 for a, b in zip(g, g[1:])] + [g[-1]]
    if name == "single":
        return [(g[0] * g[1]) ** 0.5]
    # target points are arbitrary points: neither sorted nor distinct
    if name == "midpoints-reversed":
        return [(a * b) ** 0.5 for a, b in zip(g, g[1:])][::-1]
    if name == "dup":
        m = [(a * b) ** 0.5 for a, b in zip(g, g[1:])]
        return [m[1], m[0], m[1], g[-1], m[0]]
    raise KeyError(name)


def evaluate(case):
    from eko import interpolation
    from eko.io.items import Operator
    from eko.io.struct import EKO
    from ekobox import apply

    qed, n, d, shape, xmin = case["qed"], case["n"], case["degree"], case["shape"], case["xmin"]
    order = list(case.get("order", [1, 1] if qed else [1, 0]))  # perturbative orders (QCD, QED) of the theory card
    assert qed == (order[1] > 0)
    npoints, nrep = case.get("points", 3), case.get("replicas", 2)
    mugrid, eps_keys = (MUGRID4, EPS_KEYS4) if npoints == 4 else (MUGRID, EPS_KEYS)
    opkind, linear_open = case["opkind"], case.get("linear_open", False)
    is_log = not linear_open
    g = G.make(shape, n, xmin)
    ref = G.PolyRef(g, is_log)
    QX = ref.monomials(g, d)
    ops = _operators(opkind, n, d, QX, npoints)
    res = Result()
    info = {"max_err_over_tol": 0.0, "checks": 0, "numbers": 0}
    path = cards.scratch_path("c43")
    th, oc = cards.build(dict(order=order, xgrid=list(g), degree=d, mugrid=mugrid, init=[MU0, 4]))
    mu20 = MU0 * MU0

    # a "decoy" application first: another EKO with the same grid size, interpolation mode and degree but different
    # points is applied on a target grid in this process, so that state kept between calls (e.g. a cache keyed too
    # coarsely) shows up deterministically inside this very case
    if case.get("decoy", True) and not linear_open:
        gd = [x ** 0.8 for x in g]
        dpath = cards.scratch_path("c43decoy")
        dth, doc = cards.build(dict(order=[1, 1] if qed else [1, 0], xgrid=list(gd), degree=d, mugrid=MUGRID, init=[MU0, 4]))
        try:
            with EKO.create(dpath) as bld:
                de = bld.load_cards(dth, doc).build()
                de[(MUGRID[0][0] ** 2, MUGRID[0][1])] = Operator(B.tensor((14, n, 14, n), phase=5.5), None)
            with EKO.read(dpath) as de:
                apply.apply_pdf(de, PdfLike(case["pdfs"][0], MISSING[case["missing"][0]]), targetgrid=np.array([(gd[0] * gd[1]) ** 0.5]), rotate_to_evolution_basis=True)
        finally:
            if dpath.exists():
                dpath.unlink()

    pending = []  # (entry, name, atoms, signature suffix, message)
    tcache = {}  # target kind -> reference quantities that depend on the target points only

    def flag(entry, name, atoms, what, msg):
        pending.append((entry, name, frozenset(atoms), what, msg))

    def run_all(eko):
        for pk in case["pdfs"]:
            for mk in case["missing"]:
                for rotate in (False, True):
                    for tname in case["targets"]:
                        for entry in case["entries"]:
                            _one(eko, pk, mk, rotate, tname, entry)

    def _one(eko, pk, mk, rotate, tname, entry):
        pdf = PdfLike(pk, MISSING[mk])
        Y = target_points(g, tname)
        rot_atom = f"rotation(qed={qed})" if order[1] <= 1 else f"rotation(qed-order={order[1]})"
        atoms = {"contraction"} | ({rot_atom} if rotate else set()) | ({"target-grid"} if Y is not None else set())
        where = (
            f"order={order} points={npoints} replicas={nrep} qed={qed} n={n} degree={d} shape={shape} xmin={xmin} op={opkind} pdf={pk} missing={mk} rotate={rotate} "
            f"target={tname} entry={entry} log={is_log}"
        )
        Rm = None
        labels = list(B.FLAVOR_PIDS)
        if rotate:
            Rm, labels = (B.UNI, list(B.UNI_PIDS)) if qed else (B.EVOL, list(B.EVOL_PIDS))
        # ---- call the code under test
        try:
            with warnings.catch_warnings():
                warnings.simplefilter("ignore")
                if entry == "apply_pdf":
                    got, goterr = apply.apply_pdf(
                        eko, pdf, targetgrid=None if Y is None else np.array(Y), rotate_to_evolution_basis=rotate
                    )
                elif entry == "apply_pdf_flavor":
                    got, goterr = apply.apply_pdf_flavor(
                        eko, pdf, labels, None if Y is None else list(Y), None if Rm is None else Rm.copy()
                    )
                else:  # apply_grids + rotate_result with 2 (1, 3, 14) replicas
                    f0 = _inputs(PdfLike(pk, MISSING[mk]), g, mu20)
                    grids, gerrs = apply.apply_grids(eko, np.array([_replica(f0, i) for i in range(nrep)]))
                    got = apply.rotate_result(eko, grids, labels, None if Y is None else list(Y), Rm)
                    goterr = apply.rotate_result(eko, gerrs, labels, None if Y is None else list(Y), Rm)
        except Exception as e:  # noqa
            flag(entry, "values", atoms, "raises", f"{type(e).__name__}: {e} {where}")
            return
        if entry != "apply_grids" and any(abs(q2 - mu20) > 1e-12 * mu20 for _p, q2 in pdf.calls):
            flag(entry, "values", {"contraction"}, "scale", f"{where}: xfxQ2 called at Q2 {sorted(set(q for _p, q in pdf.calls))}, initial scale is {mu20}")
        # ---- reference
        f = _inputs(PdfLike(pk, MISSING[mk]), g, mu20)  # [14, n]
        reps = [f] if entry != "apply_grids" else [_replica(f, i) for i in range(nrep)]
        Ye = list(g) if Y is None else Y
        P = Pabs = tolfac = QY = None
        if Y is not None:
            if tname not in tcache:  # depends on the target points only: computed once per case
                cnd = G.MonomialCond(g, is_log, d)
                tolfac = np.array([2e-13 + 64.0 * EPS * cnd(y) for y in Ye])  # rounding of one basis-function value (C34)
                if opkind == "poly":
                    QY = ref.monomials(Ye, d)
                else:
                    disp = interpolation.InterpolatorDispatcher(interpolation.XGrid(list(g), log=is_log), d, mode_N=False)
                    P = np.array([[disp[j].evaluate_x(y) for j in range(n)] for y in Ye])
                    Pabs = np.abs(P)
                tcache[tname] = (tolfac, QY, P, Pabs)
            tolfac, QY, P, Pabs = tcache[tname]
        # keys
        for name, dct, which in (("values", got, 0), ("errors", goterr, 1)):
            want_eps = [ep for ep, (O, E, W) in zip(eps_keys, ops) if which == 0 or E is not None]
            if sorted(dct.keys()) != sorted(want_eps):
                flag(entry, name, atoms, "evolution-points", f"{where}: keys {sorted(dct.keys())}, expected {sorted(want_eps)}")
                continue
            for ep, (O, E, W) in zip(eps_keys, ops):
                if ep not in want_eps:
                    continue
                T = O if which == 0 else E
                if list(dct[ep].keys()) != labels:
                    flag(entry, name, atoms, "labels", f"{where}: labels {list(dct[ep].keys())}, expected {labels}")
                    continue
                for irep, fr in enumerate(reps):
                    out = np.tensordot(T, fr, axes=([2, 3], [0, 1]))  # [14, n]
                    outabs = np.tensordot(np.abs(T), np.abs(fr), axes=([2, 3], [0, 1]))
                    if Rm is not None:
                        out, outabs = Rm @ out, np.abs(Rm) @ outabs
                    if Y is not None:
                        if opkind == "poly" and which == 0:
                            inner = np.tensordot(W, fr, axes=([2, 3], [0, 1]))  # [d+1, 14]
                            innerabs = np.tensordot(np.abs(W), np.abs(fr), axes=([2, 3], [0, 1]))
                            exact = np.einsum("im,ma->ai", QY, inner)
                            exactabs = np.einsum("im,ma->ai", np.abs(QY), innerabs)
                            if Rm is not None:
                                exact, exactabs = Rm @ exact, np.abs(Rm) @ exactabs
                            want, tol = exact, exactabs * tolfac[None, :] + 1e-12 * exactabs
                        elif opkind == "poly":
                            continue  # the error tensor of a polynomial operator is dense: judged in the dense cases
                        else:
                            # apply may take the identity shortcut for target = nodes while P carries the
                            # rounding of the basis evaluation: allow that rounding on every basis-function value
                            want = out @ P.T
                            tol = 1e-12 * (outabs @ Pabs.T) + outabs.sum(axis=1)[:, None] * tolfac[None, :]
                    else:
                        want, tol = out, 1e-12 * outabs
                    arr = np.array([np.asarray(dct[ep][lab]) for lab in labels], dtype=float)
                    if entry == "apply_grids":
                        if arr.ndim != 3 or arr.shape[1] != nrep:
                            flag(entry, name, atoms, "shape", f"{where}: shape {arr.shape}")
                            break
                        arr = arr[:, irep, :]
                    if arr.shape != want.shape:
                        flag(entry, name, atoms, "shape", f"{where}: shape {arr.shape}, expected {want.shape}")
                        break
                    r = np.abs(arr - want) / np.maximum(tol, 1e-300)
                    ia = np.unravel_index(int(r.argmax()), r.shape)
                    info["checks"] += 1
                    info["numbers"] += int(arr.size)
                    if not np.all(np.isfinite(arr)) or r[ia] > 1.0:
                        flag(
                            entry,
                            name,
                            atoms,
                            "numbers",
                            f"{where}: ep={ep} label={labels[ia[0]]} point x={Ye[ia[1]]!r}: got {arr[ia]!r}, "
                            f"reference {want[ia]!r} (tol {tol[ia]:.2e})",
                        )
                    else:
                        info["max_err_over_tol"] = max(info["max_err_over_tol"], float(r[ia]))

    try:
        with EKO.create(path) as b:
            e = b.load_cards(th, oc).build()
            if linear_open:
                e.xgrid = interpolation.XGrid(list(g), log=False)
            for ep, (O, E, _W) in zip(eps_keys, ops):
                e[ep] = Operator(O.copy(), None if E is None else E.copy())
            if linear_open:
                run_all(e)  # apply to the still open, in-memory EKO (the only way to have a linear grid)
        if not linear_open:
            with EKO.read(path) as e:
                run_all(e)
    finally:
        try:
            path.unlink()
        except FileNotFoundError:
            pass
    # a failure of a compound option (rotation and/or target grid on top of the contraction) is reported only if no
    # simpler option of the same entry point already fails: one defect -> one signature
    for entry, name, atoms, what, msg in pending:
        if any(e2 == entry and n2 == name and a2 < atoms for e2, n2, a2, _w, _m in pending):
            continue
        sig = f"{entry}/{name}/{'+'.join(sorted(atoms))}/{what}"
        if sum(f.signature == sig for f in res.fails) < 2:  # two examples per signature are enough
            res.fail(sig, msg)
    res.info = info
    res.nontrivial = info["checks"] > 0
    res.outcome = f"qed={qed},op={opkind},log={is_log}"
    return res


def _replica(f, i):
    """i-th member of a family of distinct input grids: f, 2f+1, 3f+2, ... (alternating sign of the offset from i=2)."""
    return (i + 1.0) * f + (i if i < 2 else (-1.0) ** i * 0.5 * i)


def _inputs(pdf, g, mu20):
    f = np.zeros((14, len(g)))
    for b, pid in enumerate(B.FLAVOR_PIDS):
        if pid in pdf.missing:
            continue
        f[b] = [pdf.xf(pid, x, mu20) / x for x in g]
    return f


def run(ctx):
    thorough = ctx.thorough()
    cases = []
    grids = [("geometric", 1e-5), ("irregular", 1e-3)] + ([("loglin", 1e-7), ("lambert", 1e-4)] if thorough else [])
    sizes = [4, 8] if not thorough else [3, 4, 8, 12]
    degrees = [1, 2, 3] if not thorough else [1, 2, 3, 4]
    for qed in (False, True):
        for shape, xmin in grids:
            for n in sizes:
                for d in degrees:
                    if n <= d or G.make(shape, n, xmin) is None:
                        continue
                    for opkind in ("dense", "poly"):
                        cases.append(
                            {
                                "qed": qed, "n": n, "degree": d, "shape": shape, "xmin": xmin, "opkind": opkind,
                                "pdfs": ["toy", "steep"],
                                "missing": list(MISSING) if (d == 1 or thorough) else ["none", "heavy"],
                                "targets": [None, "midpoints", "refined", "nodes", "same-length", "single"]
                                + (["midpoints-reversed", "dup"] if (d == 2 or thorough) else []),
                                "entries": ["apply_pdf", "apply_pdf_flavor"] + (["apply_grids"] if (d == 2 or thorough) else []),
                            }
                        )
    # a linear grid exists only on an open EKO (the log flag does not survive the archive: C40)
    for qed in (False, True):
        for opkind in ("dense", "poly"):
            cases.append(
                {
                    "qed": qed, "n": 6, "degree": 2, "shape": "linear", "xmin": 1e-2, "opkind": opkind, "linear_open": True,
                    "pdfs": ["toy"], "missing": ["none", "photon"], "targets": [None, "midpoints", "same-length"],
                    "entries": ["apply_pdf", "apply_pdf_flavor"],
                }
            )
    # ---- extras (small inner loops): QED order 2 / QCD order 3 theory cards, a 4th stored operator whose scale equals
    # the 2nd one's (other nf), 1 / 3 / 14 replicas, and a grid of 14 points with 14 replicas (every axis of length 14)
    nbase = len(cases)
    for order in ([3, 2], [1, 2], [3, 0]):
        for opkind in ("dense", "poly"):
            cases.append(
                {
                    "qed": order[1] > 0, "order": order, "n": 4, "degree": 2, "shape": "geometric", "xmin": 1e-5, "opkind": opkind,
                    "points": 4, "replicas": 1 if opkind == "dense" else 3, "decoy": False,
                    "pdfs": ["toy"], "missing": ["none", "photon"], "targets": [None, "midpoints", "dup"],
                    "entries": ["apply_pdf", "apply_grids"],
                }
            )
    for qed in (False, True):
        cases.append(
            {
                "qed": qed, "n": 14, "degree": 2, "shape": "geometric", "xmin": 1e-5, "opkind": "dense",
                "points": 4, "replicas": 14, "decoy": False,
                "pdfs": ["steep"], "missing": ["heavy"], "targets": [None, "midpoints-reversed"],
                "entries": ["apply_pdf", "apply_grids"],
            }
        )
    nextra = len(cases) - nbase
    results = ctx.run_cases(cases, evaluate)
    nchecks = sum((r[1][3] or {}).get("checks", 0) for r in results)
    nnum = sum((r[1][3] or {}).get("numbers", 0) for r in results)
    ctx.rule = (
        f"complete product QCD/QED x grids {grids} x sizes {sizes} x degrees {degrees} x operator kind "
        "{dense, polynomial-output} (one archive each, 3 evolution points, the middle one without error tensor), each "
        "applied with 2 PDF families x 2-5 missing-flavour sets x rotate {no, yes} x 6 target options (8 for degree 2"
        + (" " if not thorough else " and every other degree") + ": + reversed midpoints and an unsorted list with repeated points) x 2-3 entry "
        f"points (apply_pdf, apply_pdf_flavor, apply_grids+rotate_result with 2 replicas); plus 4 open linear-grid EKOs; plus "
        f"{nextra} archives with 4 stored operators (two of them at the same scale with different nf): theory orders (3,2), (1,2), "
        "(3,0) with 1 / 3 replicas, and 14 grid points with 14 replicas (all tensor axes of length 14); "
        f"{nchecks} result blocks / {nnum} numbers compared; non-trivial = at least one block compared"
    )
    ctx.assumptions += [
        "input values are xfxQ2(pid, x, mu0^2)/x on the stored grid, 0 for flavours the PDF does not have (docstring of apply_pdf)",
        "tolerance 1e-12 x the same contraction of absolute values; exact-polynomial targets add (2e-13 + 64 eps cond) as in C34",
        "errors = the same linear pipeline applied to the (signed) error tensor",
        "dense-operator target grids: basis-function values taken point by point from eko's x-space basis (C34)",
        "target grids that differ from the nodes only at very small x, or by a relative amount inside the 'same grid' band of "
        "get_interpolation, are not part of this property's quantifier (see C34/C42)",
        "target points are taken as an arbitrary list (any order, repetitions allowed): row i of the result belongs to point i",
    ]
