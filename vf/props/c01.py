"""C01 an EKO whose target equals its initial point is the identity operator (X-conf at S3).

Real eko.solve on every card within the deviation bound of four base cards; the operator stored
for (mu0^2, nf0) must be exactly the identity on the 13 QCD partons, with the photon decoupled
(zero row and column) in pure QCD and mapped identically with QED. A second block displaces the
target by one ulp of mu (equal up to rounding: the zero-length shortcut, rtol 1e-14, still fires and
the identity must be exact) and by 1e-12 and 3e-5 relative (it does not: the real kernels run at
a1 ~ a0 and must give 1 + O(1e-3)). A third block lists the identity target
together with further targets (one matching up / down) in one card.
"""

import numpy as np

from vf.core import cards, conf, probe
from vf.core.ctx import Result

ID = "C01"
LEVEL = "exploration"
TECHNIQUE = "deviation-bounded exhaustive enumeration of runcards (<=2, thorough <=3 deviations from 4 base cards) through the real solver; exact identity oracle"
LEVEL_TEXT = (
    "every card differing from one of 4 base cards in at most 2 (thorough 3) of 10 settings is solved by the real "
    "eko.solve and the operator at the initial point compared entry by entry with the identity (zeros and ones to 8 ulp: the flavour blow-up sums products of small rationals)"
)
LEVEL_NOTE = "cards outside the deviation bound are not explored; multi-target cards only around the LO base card; cards with the debug skip flags are excluded (they leave a sector uncomputed by design); grids limited to 2-8 points; interpreted mode"
FLOOR_NONTRIVIAL = 100

M = [2.0, 4.5, 173.07]
# (nf0, mu0) placements: lower wall, interior, upper wall of the patch
PLACEMENTS = [
    (3, 1.0), (3, 1.5), (3, 2.0),
    (4, 2.0), (4, 3.0), (4, 4.5),
    (5, 4.5), (5, 50.0), (5, 173.07),
    (6, 173.07), (6, 200.0), (6, 500.0),
]
GRIDS = [
    dict(xgrid=[0.1, 1.0], is_log=True),
    dict(xgrid=[0.01, 0.1, 1.0], is_log=True),
    dict(xgrid=[1e-3, 1e-2, 0.1, 0.5, 1.0], is_log=True),
    dict(xgrid=[1e-5, 1e-4, 1e-3, 1e-2, 0.1, 0.3, 0.6, 1.0], is_log=True),
    dict(xgrid=[0.25, 0.5, 0.75, 1.0], is_log=False),
    dict(xgrid=[0.1, 0.2, 0.4, 0.6, 0.8, 1.0], is_log=False),
]
DIMS = {
    "qcd": [dict(_qcd=n) for n in (1, 2, 3, 4)],
    "qed": [dict(_qed=n) for n in (0, 1, 2)],
    "method": [dict(method=m) for m in cards.METHODS],
    "kind": [dict(polarized=False, time_like=False), dict(polarized=True, time_like=False), dict(polarized=False, time_like=True)],
    "place": [dict(_place=i) for i in range(len(PLACEMENTS))],
    "grid": GRIDS,
    "degree": [dict(degree=d) for d in (1, 2, 3, 4)],
    "sv": [
        dict(sv=None, xif=1.0),
        dict(sv="exponentiated", xif=0.5),
        dict(sv="exponentiated", xif=1.0),
        dict(sv="exponentiated", xif=2.0),
        dict(sv="expanded", xif=1.0),
    ],
    "em_running": [dict(em_running=False), dict(em_running=True)],
    "ratios": [dict(ratios=[1.0, 1.0, 1.0]), dict(ratios=[0.5, 0.5, 0.5]), dict(ratios=[2.0, 1.5, 1.0])],
}
BASES = [
    dict(qcd=0, qed=0, method=0, kind=0, place=4, grid=1, degree=0, sv=0, em_running=0, ratios=0),
    dict(qcd=2, qed=0, method=4, kind=1, place=1, grid=2, degree=1, sv=0, em_running=0, ratios=0),
    dict(qcd=1, qed=0, method=6, kind=2, place=7, grid=3, degree=2, sv=2, em_running=0, ratios=0),
    dict(qcd=1, qed=1, method=0, kind=0, place=4, grid=1, degree=0, sv=0, em_running=1, ratios=0),
]


def to_cfg(assign, displace=0.0):
    raw = conf.materialise(DIMS, assign)
    nf0, mu0 = PLACEMENTS[raw.pop("_place")]
    qcd, qed = raw.pop("_qcd"), raw.pop("_qed")
    raw["order"] = [qcd, qed]
    raw["degree"] = min(raw["degree"], len(raw["xgrid"]) - 1)
    # with ratios != 1 the walls move; the placement is re-expressed relative to the walls
    walls = [m * r for m, r in zip(M, raw["ratios"])]
    lo = walls[nf0 - 4] if nf0 > 3 else None
    hi = walls[nf0 - 3] if nf0 < 6 else None
    which = [i for i, p in enumerate(PLACEMENTS) if p[0] == nf0].index(PLACEMENTS.index((nf0, mu0)))
    if which == 0:
        mu0 = lo if lo is not None else 1.0
    elif which == 2:
        mu0 = hi if hi is not None else 500.0
    else:
        mu0 = ((lo or 1.0) * (hi or 500.0)) ** 0.5 if (lo or hi) else mu0
        if lo is not None and hi is None:
            mu0 = lo * 1.7
        if lo is None and hi is not None:
            mu0 = hi * 0.7
    raw["init"] = [mu0, nf0]
    if displace == "ulp":
        # equal up to rounding: the neighbouring float of mu0 (mu^2 differs from mu0^2 by ~4e-16 relative)
        raw["mugrid"] = [[float(np.nextafter(mu0, np.inf)), nf0]]
    else:
        raw["mugrid"] = [[mu0 * (1.0 + displace) ** 0.5, nf0]]
    raw["iterations"] = 2
    raw["max_order"] = [3, 0]
    raw["masses"] = M
    return raw


def _others(cfg, which):
    """Further targets computed together with the identity target: one matching up / one matching down (same nf at the edges)."""
    mu0, nf0 = cfg["init"]
    walls = [m * r for m, r in zip(M, cfg["ratios"])]
    up = [walls[nf0 - 3] * 1.5, nf0 + 1] if nf0 < 6 else [mu0 * 2.0, nf0]
    dn = [walls[nf0 - 4] * 0.7, nf0 - 1] if nf0 > 3 else [mu0 * 0.9, nf0]
    return {"up": [up], "down": [dn], "both": [dn, up]}[which]


def _check_identity(res, op, qed, sig, where, tol_ulp=8):
    g = op.shape[1]
    pids = probe.FLAVOR_PIDS
    worst = 0.0
    for o in range(14):
        for i in range(14):
            blk = op[o, :, i, :]
            if o == i and (qed or pids[o] != 22):
                dev = np.abs(blk - np.eye(g))
                worst = max(worst, float(dev.max()))
                off = blk - np.diag(np.diag(blk))
                worst = max(worst, float(np.abs(off).max()))
                if np.any(np.abs(off) > tol_ulp * np.finfo(float).eps):
                    res.fail(sig + "/offgrid", f"{where}: channel {pids[o]}->{pids[o]} couples different grid points (max {np.abs(off).max():.3e})")
                    return worst
                if np.any(np.abs(np.diag(blk) - 1.0) > tol_ulp * np.finfo(float).eps):
                    res.fail(sig + "/weight", f"{where}: channel {pids[o]}->{pids[o]} has weight {np.diag(blk)} != 1")
                    return worst
            else:
                worst = max(worst, float(np.abs(blk).max()))
                if np.any(np.abs(blk) > tol_ulp * np.finfo(float).eps):
                    kind = "photon" if 22 in (pids[o], pids[i]) else "mixing"
                    res.fail(sig + "/" + kind, f"{where}: entry {pids[i]}->{pids[o]} is non-zero (max {np.abs(blk).max():.3e})")
                    return worst
    return worst


def _classes(cfg):
    return f"qcd={cfg['order'][0]},qed={cfg['order'][1]},pol={int(cfg['polarized'])},tl={int(cfg['time_like'])},sv={cfg['sv']}"


def evaluate(case):
    assign = case["assign"]
    mode = case.get("mode", "exact")
    # "shortcut": target equal to the initial scale up to rounding (documented: segments of zero length up to rounding are
    # skipped); "kernel12" / "kernel": displaced by 1e-12 / 3e-5 relative in mu^2, outside the rounding window -> real kernels
    displace = {"exact": 0.0, "shortcut": "ulp", "kernel12": 1e-12, "kernel": 3e-5}[mode]
    cfg = to_cfg(assign, displace)
    res = Result()
    qed = cfg["order"][1] > 0
    others = case.get("others")
    ident_target = list(cfg["mugrid"][0])
    if others:
        # the identity target is one of several: the runner's per-target loop, recipe de-duplication and part retrieval
        # run with the parts of the other targets present
        extra = _others(cfg, others)
        cfg["mugrid"] = ([ident_target] + extra) if case.get("pos", "first") == "first" else (extra + [ident_target])
        cfg["inversion"] = "exact"
    where = f"mode={mode} cfg={ {k: cfg[k] for k in ('order','method','polarized','time_like','init','mugrid','xgrid','degree','sv','xif','em_running','ratios')} }"
    sig = f"solve/identity/{mode}/{_classes(cfg)}" + (f"/with-others={others}" if others else "")
    try:
        if mode == "exact":
            # decoy: another EKO in the same process with the same thresholds and initial scale but another initial
            # nf, so that state kept between solves (a cache keyed too coarsely) shows up inside this very case
            nf0 = cfg["init"][1]
            dnf = nf0 + 1 if nf0 < 6 else nf0 - 1
            try:
                cards.solve_ops(dict(cfg, init=[cfg["init"][0], dnf], mugrid=[[ident_target[0], dnf]]), tag="c01decoy")
            except Exception:  # noqa - the decoy's own outcome is not judged here
                pass
        ops = cards.solve_ops(cfg, tag="c01")
    except (NotImplementedError, ValueError) as e:
        res.outcome = f"refused:{type(e).__name__}"
        res.nontrivial = False
        res.info = {"refusal": str(e)[:120]}
        return res
    except Exception as e:  # noqa
        res.fail(f"solve/identity/crash/{type(e).__name__}/{_classes(cfg)}", f"{where}: {type(e).__name__}: {str(e)[:300]}")
        res.outcome = "crash"
        return res
    want = {(float(m) ** 2, n) for m, n in cfg["mugrid"]}
    ep = (float(ident_target[0]) ** 2, ident_target[1])
    if {(float(k[0]), k[1]) for k in ops} != want or len(ops) != len(want):
        res.fail(sig + "/points", f"{where}: archive holds {sorted(ops)}, requested {sorted(want)}")
        return res
    op, err = ops[ep]
    if mode in ("exact", "shortcut"):
        w = _check_identity(res, op, qed, sig, where)
        res.info = {"max_dev_exact": w}
    else:
        # real kernels at a displacement of 1e-12 / 3e-5: identity up to the Mellin-inversion error on the tiny grid
        g = op.shape[1]
        ident = np.zeros_like(op)
        for o in range(14):
            if qed or probe.FLAVOR_PIDS[o] != 22:
                ident[o, :, o, :] = np.eye(g)
        # the last grid point (x=1) row is never integrated; interpolation of the identity is exact at nodes
        dev = float(np.abs(op - ident).max())
        res.info = {"max_dev_kernel" if mode == "kernel" else "max_dev_kernel12": dev}
        # 3e-5: bound 2e-2 (measured 6.3e-4); 1e-12: the deviation scales with the displacement (measured 2.1e-11 in both tiers)
        bound = 2e-2 if mode == "kernel" else 1e-8
        if not np.isfinite(dev) or dev > bound or dev == 0.0:
            res.fail(sig + "/near-identity", f"{where}: |E - 1| = {dev:.3e} for a relative displacement of {displace:g} (outside the zero-length shortcut: real kernels)")
    res.outcome = f"identity:{mode}:{'qed' if qed else 'qcd'}" + (":multi-target" if others else "")
    return res


def run(ctx):
    k = 3 if ctx.thorough() else 2
    bases = [BASES[0], BASES[3]] if not ctx.thorough() else BASES[:2]
    assigns = list(conf.union(*[conf.neighbourhood(DIMS, b, k) for b in bases]))
    if ctx.thorough():
        assigns = list(conf.union(assigns, *[conf.neighbourhood(DIMS, b, 2) for b in BASES]))
    else:
        assigns = list(conf.union(assigns, *[conf.neighbourhood(DIMS, b, 1) for b in BASES]))
    cases = [dict(assign=a, mode="exact") for a in assigns]
    # displaced targets on the <=1-deviation neighbourhoods
    for a in conf.union(*[conf.neighbourhood(DIMS, b, 1) for b in BASES]):
        cases.append(dict(assign=a, mode="shortcut"))
        if a["qcd"] <= 2 and (a["grid"] == 0 or (a["grid"] == 1 and a["qed"] == 0)) and (ctx.thorough() or a["qed"] == 0):
            cases.append(dict(assign=a, mode="kernel"))
            # 1e-12: inside the former (rtol 1e-5) shortcut window, now computed with the real kernels at a1 - a0 ~ 1e-13
            if a["grid"] == 0 or a["qcd"] == 0:
                cases.append(dict(assign=a, mode="kernel12"))
    # cards with further targets (one matching up, one down, both), the identity target listed first / last
    multi = []
    b0 = BASES[0]
    for place in range(len(PLACEMENTS)):
        for others in ("up", "down", "both"):
            for pos in ("first", "last"):
                multi.append((dict(b0, place=place), others, pos))
    for pos in ("first", "last"):
        for kind in (1, 2):
            for place in (4, 7):
                multi.append((dict(b0, kind=kind, place=place), "both", pos))
        for place in (3, 4, 8):
            multi.append((dict(b0, qcd=1, place=place), "both", pos))  # NLO: non-trivial matching in the other targets
        for sv in (1, 3, 4):
            multi.append((dict(b0, sv=sv), "both", pos))
        multi.append((dict(b0, ratios=2), "both", pos))
    if ctx.thorough():
        for pos in ("first", "last"):
            for others in ("up", "down", "both"):
                multi.append((dict(BASES[3], grid=0), others, pos))  # QED with running alpha_em, 2-point grid
            for method in range(1, len(cards.METHODS)):
                multi.append((dict(b0, qcd=1, method=method), "both", pos))
            for place in (1, 4, 7, 10):
                multi.append((dict(b0, qcd=2, place=place), "both", pos))
    n_multi = len(multi)
    for a, others, pos in multi:
        cases.append(dict(assign=a, mode="exact", others=others, pos=pos))
    ctx.run_cases(cases, evaluate)
    ctx.rule = (
        f"all cards within {k} deviations of {len(bases)} base cards (+ <=2 of all 4) over 10 dimensions (QCD order 1-4, QED 0-2, 8 methods, "
        "unpol/pol/time-like, 12 (nf0, scale) placements on and inside the patch walls, 6 grids log/linear 2-8 points, degree 1-4, "
        "5 scale-variation settings, em running, 3 matching-ratio sets), target = initial point; plus targets displaced by one ulp of mu "
        f"(equal up to rounding: shortcut, exact identity) on the <=1-deviation sets and by 1e-12 / 3e-5 (real kernels, 0 < |E-1| < 1e-8 / 2e-2) on their tiny-grid, <= NNLO members; {n_multi} cards where the identity target is listed first / last "
        "together with a target one matching up, one matching down, or both (all 12 placements at LO; pol / time-like, NLO on and inside "
        "the walls, 3 scale-variation settings, shifted matching ratios"
        f"{'; thorough: QED with running alpha_em, all methods at NLO, NNLO' if ctx.thorough() else ''}); non-trivial = solved (not refused)"
    )
    ctx.assumptions += [
        "refusals (NotImplementedError/ValueError) are C04's subject and count as trivial here",
        "cards with the debug skip flags (skip_singlet / skip_non_singlet) are outside the property: their documented purpose is to leave a sector uncomputed",
        "in the multi-target cards only the operator of the identity target is judged (the others must merely be present)",
    ]
