"""C52 heavy flavours that are never active are transported unchanged (X-conf, S2 + S3).

For every card of the product (path shape with final nf 3-5) x order x method x QED x kind, the
set of quarks active on some segment is computed by the independent path builder; for every other
heavy quark q the rows and columns q, qbar of the flavour-space evolution matrix (Mellin moments
through the real runner under the moment probe; x-space tensor for the S3 cards) must be exactly
the unit vectors e_q.
Scale variations (both schemes, xi != 1) are switched on for a sub-lattice: the expanded factor K and the
re-expanded anomalous dimensions / matching must not touch quarks that are never active. On the un-stubbed (S3)
cards the stored integration-error tensor of those rows/columns must be exactly zero as well (a weight that is
exactly one has no integration error), and entries between different grid points are exactly 0.0.
"""

import numpy as np

from vf.core import cards, probe
from vf.core.ctx import Result
from vf.ref import paths as refp

ID = "C52"
LEVEL = "exploration"
TECHNIQUE = "exhaustive enumeration of the configuration product through the real runner at the moment-probe seam (+ un-stubbed tiny-grid solves); exact unit-vector oracle on inactive-quark rows/columns"
LEVEL_TEXT = (
    "full product of 9 flavour paths x QCD order x 8 methods x QED order x unpol/pol/time-like is solved by the real runner; rows and "
    "columns of quarks never active on the path must be unit vectors (zeros and ones to 8 ulp); a sub-lattice with both scale-variation "
    "schemes at xi != 1; on the un-stubbed cards also exact zeros between grid points and in the error tensor"
)
LEVEL_NOTE = "S2 probe removes Mellin inversion/interpolation (covered by S3 cards on 3-point grids); masses/scales fixed; interpreted mode"
FLOOR_NONTRIVIAL = 100

M = [2.0, 4.5, 100.0]
SC = {3: 1.5, 4: 3.0, 5: 10.0, 6: 150.0}
PATHS = [(3, 3), (4, 4), (5, 5), (3, 4), (3, 5), (4, 5), (4, 3), (5, 4), (5, 3)]
KINDS = [dict(polarized=False, time_like=False), dict(polarized=True, time_like=False), dict(polarized=False, time_like=True)]
# N = 2 exactly is avoided: the O(a_s^3) matching elements are 0/0 there (known finding, C26)
MOMENTS = [2.3, 3.3]
PIDS = probe.FLAVOR_PIDS


def _cfg(case):
    nf0, nff = case["path"]
    mu0 = SC[nf0]
    muf = SC[nff] * (1.4 if nf0 == nff else 1.0)
    return dict(
        order=[case["qcd"], case["qed"]],
        method=case["method"],
        masses=M,
        init=[mu0, nf0],
        mugrid=[[muf, nff]],
        iterations=2,
        max_order=[3, 0],
        inversion=case.get("inversion", "expanded"),
        em_running=case.get("em_running", False),
        sv=case.get("sv"),
        xif=case.get("xif", 1.0),
        **KINDS[case["kind"]],
    )


def _unit_check(res, mat, q, sig, where, tol=8 * np.finfo(float).eps):
    """mat[out, in]; quark pid q and its antiquark must be transported with weight one and decoupled."""
    worst = 0.0
    for pid in (q, -q):
        i = PIDS.index(pid)
        col = mat[:, i].copy()
        row = mat[i, :].copy()
        d = abs(col[i] - 1.0)
        col[i] = 0.0
        row[i] = 0.0
        worst = max(worst, d, float(np.abs(col).max()), float(np.abs(row).max()))
        if d > tol:
            res.fail(sig + "/weight", f"{where}: pid {pid} carried with weight {mat[i, i]!r}")
        if np.abs(col).max() > tol:
            j = int(np.abs(col).argmax())
            res.fail(sig + "/feeds-others", f"{where}: inactive pid {pid} feeds pid {PIDS[j]} with {col[j]:.3e}")
        if np.abs(row).max() > tol:
            j = int(np.abs(row).argmax())
            res.fail(sig + "/receives", f"{where}: inactive pid {pid} receives {row[j]:.3e} from pid {PIDS[j]}")
    return worst


def evaluate(case):
    cfg = _cfg(case)
    res = Result()
    nf0, nff = case["path"]
    walls = [m**2 for m in M]
    active = refp.active_quarks(walls, (cfg["init"][0] ** 2, nf0), (cfg["mugrid"][0][0] ** 2, nff))
    inactive = [q for q in (4, 5, 6) if q > max(active)]
    shape = "fixed" if nf0 == nff else ("up" if nff > nf0 else "down")
    sig = f"solve/{case['seam']}/{shape}/qed={int(case['qed'] > 0)},kind={case['kind']}" + (f",sv={case['sv']}" if case.get("sv") else "")
    where = f"path={case['path']} order={cfg['order']} method={cfg['method']} kind={KINDS[case['kind']]} sv={cfg['sv']} xif={cfg['xif']} inactive={inactive}"
    worst_err, n_err = 0.0, 0
    try:
        if case["seam"] == "s2":
            out = probe.moment_solve(cfg, MOMENTS)
            mats = [m for ep, ms in out.items() for m in ms]
        else:
            ops = cards.solve_ops(dict(cfg, xgrid=[0.2, 0.6, 1.0], degree=1), tag="c52")
            mats = []
            for ep, (op, err) in ops.items():
                g = op.shape[1]
                for j in range(g):
                    for k in range(g):
                        if j == k:
                            mats.append(op[:, j, :, k])
                        else:
                            # different grid points: inactive rows/columns must vanish entirely
                            for q in inactive:
                                for pid in (q, -q):
                                    i = PIDS.index(pid)
                                    if np.abs(op[i, j, :, k]).max() != 0.0 or np.abs(op[:, j, i, k]).max() != 0.0:
                                        res.fail(sig + "/offgrid", f"{where}: inactive pid {pid} couples grid points {j}->{k}")
                # error tensor: identities are not integrated, so their error estimate is exactly zero
                if err is not None:
                    n_err += 1
                    for q in inactive:
                        for pid in (q, -q):
                            i = PIDS.index(pid)
                            e = max(float(np.abs(err[i]).max()), float(np.abs(err[:, :, i, :]).max()))
                            worst_err = max(worst_err, e)
                            if e != 0.0 or not np.all(np.isfinite(err[i])) or not np.all(np.isfinite(err[:, :, i, :])):
                                res.fail(sig + "/error-tensor", f"{where}: inactive pid {pid} has a non-zero integration error estimate {e:.3e}")
    except (NotImplementedError, ValueError) as e:
        res.outcome = f"refused:{str(e)[:40]}"
        res.nontrivial = False
        return res
    except Exception as e:  # noqa
        res.fail(f"solve/{case['seam']}/crash/{type(e).__name__}", f"{where}: {type(e).__name__}: {str(e)[:200]}")
        return res
    worst = 0.0
    for mat in mats:
        if not np.all(np.isfinite(mat)):
            res.fail(sig + "/nonfinite", f"{where}: non-finite entries")
            break
        for q in inactive:
            worst = max(worst, _unit_check(res, mat, q, sig, where))
    res.info = {"max_dev": worst, "inactive": len(inactive)}
    if case["seam"] == "s3":
        res.info.update(max_err_inactive=worst_err, error_tensors=n_err)
    res.outcome = f"{shape}:inactive={inactive}"
    res.nontrivial = bool(inactive)
    return res


def run(ctx):
    cases = []
    orders = (1, 2, 3, 4) if ctx.thorough() else (1, 2, 3)
    for path in PATHS:
        for qcd in orders:
            for kind in range(3):
                for qed in (0, 1, 2):
                    methods = cards.METHODS if (qed == 0 or ctx.thorough()) else ["iterate-exact", "truncated"]
                    if not ctx.thorough() and qcd == 3 and qed == 0:
                        methods = ["iterate-exact", "truncated", "decompose-exact", "perturbative-expanded"]
                    for m in methods:
                        cases.append(dict(seam="s2", path=list(path), qcd=qcd, qed=qed, kind=kind, method=m))
    # exact inversion on downward paths; em running
    for path in [(4, 3), (5, 4), (5, 3)]:
        for qcd in (2, 3):
            cases.append(dict(seam="s2", path=list(path), qcd=qcd, qed=0, kind=0, method="truncated", inversion="exact"))
    for path in PATHS:
        cases.append(dict(seam="s2", path=list(path), qcd=2, qed=1, kind=0, method="iterate-exact", em_running=True))
    # N3LO (as3 matching labels) on one upward path in quick (thorough: part of the product above)
    if not ctx.thorough():
        cases.append(dict(seam="s2", path=[3, 4], qcd=4, qed=0, kind=0, method="truncated"))
    # scale variations switched on: K factor (expanded; also on zero-length segments) / re-expanded gamma and matching
    # (exponentiated) with xi = 2 and 1/2, one path of every shape, with and without QED
    svpaths = PATHS if ctx.thorough() else [(4, 4), (3, 4), (5, 4), (3, 5)]
    for path in svpaths:
        for sv in ("expanded", "exponentiated"):
            for xif in (2.0, 0.5):
                for qcd, qed, m in ((2, 0, "truncated"), (3, 0, "iterate-exact"), (2, 1, "iterate-exact")):
                    if not ctx.thorough() and (xif == 0.5) != (qcd == 3):
                        continue
                    cases.append(dict(seam="s2", path=list(path), qcd=qcd, qed=qed, kind=0, method=m, sv=sv, xif=xif))
    # S3: real integration on a 3-point grid
    s3paths = PATHS if ctx.thorough() else [(3, 3), (3, 4), (5, 4), (4, 5)]
    for path in s3paths:
        for qcd, qed, m in ((1, 0, "truncated"), (2, 0, "iterate-exact"), (1, 1, "iterate-exact")):
            if qed and not ctx.thorough() and path != (3, 4):
                continue
            cases.append(dict(seam="s3", path=list(path), qcd=qcd, qed=qed, kind=0, method=m))
    cases.append(dict(seam="s3", path=[3, 4], qcd=2, qed=0, kind=0, method="truncated", sv="expanded", xif=2.0))
    cases.append(dict(seam="s3", path=[5, 4], qcd=2, qed=0, kind=0, method="truncated", sv="exponentiated", xif=2.0))
    ctx.run_cases(cases, evaluate, chunksize=2)
    ctx.rule = (
        f"product of 9 flavour paths (fixed nf 3-5, up 3->4, 3->5, 4->5, down 4->3, 5->4, 5->3) x QCD order {orders} x "
        "unpol/pol/time-like x QED order 0-2 x solution methods (all 8 without QED; quick: 2 with QED and 4 at NNLO) at the moment-probe seam (N = 2, 3.3), exact-inversion and "
        "em-running variants, both scale-variation schemes at xi = 2, 1/2 (NLO, NNLO, QED x NLO; quick: 4 paths), "
        + ("" if ctx.thorough() else "one N3LO upward path, ")
        + "and un-stubbed 3-point-grid solves (operator and error tensor; 2 with scale variations); non-trivial = solved and at least one heavy quark never active"
    )
    ctx.assumptions += ["active set from the independent path builder (vf.ref.paths)"]
