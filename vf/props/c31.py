"""C31 flavour/evolution basis rotations and sector projectors: exact, complete enumeration.

Finite property, decided completely in exact rational arithmetic:
  tables  (2 cases)   the two rotation tables: integer entries, rank 14 over Q, pairwise orthogonal
                      rows, every row = the documented flavour content of its label, label <-> pid
                      tables follow the documented numbering, sector tables name members of the basis;
                      non-singlet sector codes, sector label tuples, matching pids 90/91 (QCD case);
                      intrinsic_unified_evol_labels(nf), nf 3-6 (QED case)
  sector  (124 cases) nf 3-6 x {QCD: 7 sectors, QED: 24 sectors}: the map returned by
                      ad_projector(label, nf, qed), acting on row vectors, sends every source
                      distribution of the sector onto its target and every other distribution of the
                      14-dimensional intrinsic basis to zero; diagonal sectors are idempotent
  family  (8 cases)   nf 3-6 x {QCD, QED}: ad_projectors(nf, qed) delivers one map per sector of the
                      basis (= the single-sector maps); the diagonal ones are pairwise orthogonal and
                      sum to the identity on the active partons (gluon, 2 nf quarks, photon in QED)
"""

from fractions import Fraction as F

from vf.core.ctx import Result
from vf.ref import c31_bases as B

ID = "C31"
LEVEL = "exploration"
TECHNIQUE = "complete enumeration nf 3-6 x QCD/QED x all sectors, exact rational arithmetic vs bases typed from the documentation"
LEVEL_TEXT = (
    "the property is finite: all 2 rotation tables, all 4x(7+24) sector maps and all 8 projector families "
    "are evaluated and compared exactly (fractions) with flavour-basis definitions typed independently "
    "from the documentation; this decides the property completely"
)
LEVEL_NOTE = (
    "trusts the definitions in vf/ref/c31_bases.py (self-checked at import: 14 independent, pairwise "
    "orthogonal rows for every nf, special cases typed twice); floats returned by eko are identified with "
    "the unique rational of denominator <= 10^4 within 1e-12; for QED with nf=3,5 only the documented "
    "nd/nu-weighted Sigma_Delta / V_Delta (orthogonal to Sigma / V on the active flavours) is accepted"
)
FLOOR_NONTRIVIAL = 20

NFS = [3, 4, 5, 6]
# codes of the non-singlet sectors (eko.basis_rotation docstrings / comments), typed here
NS_PIDS = {"ns-": 10201, "ns+": 10101, "nsV": 10200, "ns-u": 10202, "ns-d": 10203, "ns+u": 10102, "ns+d": 10103}


def _tag(qed):
    return f"qed={bool(qed)}"


def _families(nf, qed, order):
    """Readings of the 14 distributions of the intrinsic basis: list of (name, labels, rows)."""
    fams = []
    labs, rows = B.basis_matrix(nf, qed, order, "doc")
    fams.append(("doc", labs, rows))
    # the alternative 'cut table' reading of Sigma_Delta / V_Delta (QED, nf=3,5) is no longer accepted: every map
    # of the unchanged tree satisfies the documented (nd/nu-weighted, orthogonal to Sigma) reading on its own
    return fams


def _active_members(members, nf, qed):
    return [(a, b) for a, b in members if B.is_active(a, nf, qed) and B.is_active(b, nf, qed)]


def _check_sector_map(P, members, nf, qed, order):
    """-> (ok, kind, message): does P send sources onto targets and annihilate the rest (some reading)?"""
    act = _active_members(members, nf, qed)
    best = None
    for fname, labs, rows in _families(nf, qed, order):
        idx = {l: i for i, l in enumerate(labs)}
        bad = []
        for l, x in zip(labs, rows):
            want = [F(0)] * 14
            for a, b in act:
                if a == l:
                    want = [w + y for w, y in zip(want, rows[idx[b]])]
            got = B.vecmat(x, P)
            if got != want:
                kind = "source-to-target" if any(a == l for a, _ in act) else "annihilates-others"
                bad.append((kind, f"reading={fname}: {l} @ P = {B.show(got, order)} expected {B.show(want, order)}"))
        if not bad:
            return True, None, None
        if best is None or len(bad) < len(best):
            best = bad
    kinds = sorted({k for k, _ in best})
    return False, kinds[0] if len(kinds) == 1 else "source-to-target+annihilates-others", "; ".join(m for _, m in best[:3])


def _get_projector(label, nf, qed, res, sig):
    """Call the real ad_projector; (exact matrix | None, max rounding residue)."""
    import numpy as np
    from eko import basis_rotation as br

    try:
        p = br.ad_projector(tuple(label), nf, qed)
    except Exception as e:  # noqa
        res.fail(
            f"{sig}/raises:{type(e).__name__}",
            f"ad_projector({tuple(label)}, nf={nf}, qed={qed}) raised {type(e).__name__}: {e}",
        )
        return None, 0.0
    p = np.asarray(p)
    if p.shape != (14, 14):
        res.fail(f"{sig}/shape", f"ad_projector({tuple(label)}, nf={nf}, qed={qed}).shape = {p.shape}")
        return None, 0.0
    if not np.all(np.isfinite(p)):
        res.fail(
            f"{sig}/non-finite",
            f"ad_projector({tuple(label)}, nf={nf}, qed={qed}) has {int(np.sum(~np.isfinite(p)))} non-finite entries",
        )
        return None, 0.0
    try:
        return B.rat_matrix(p)
    except ValueError as e:
        res.fail(f"{sig}/not-rational", f"ad_projector({tuple(label)}, nf={nf}, qed={qed}): {e}")
        return None, 0.0


# ------------------------------------------------------------------------------------- tables
def _eval_tables(case):
    import numpy as np
    from eko import basis_rotation as br

    qed = case["qed"]
    res = Result()
    sig = f"tables/{_tag(qed)}"
    order = [int(p) for p in br.flavor_basis_pids]
    # flavour basis: pids <-> names
    if len(order) != 14 or sorted(order) != B.ALL_PIDS:
        res.fail("tables/flavor_basis_pids", f"flavor_basis_pids={order}")
        return res
    if [B.PDG.get(n) for n in br.flavor_basis_names] != order:
        res.fail("tables/flavor_basis_names", f"names={br.flavor_basis_names} pids={order}")
    if [B.PDG.get(c) for c in br.quark_names] != [1, 2, 3, 4, 5, 6]:
        res.fail("tables/quark_names", f"quark_names={br.quark_names!r}: position k-1 must hold the quark with pid k")
    labels = list(br.unified_evol_basis if qed else br.evol_basis)
    pids = list(br.unified_evol_basis_pids if qed else br.evol_basis_pids)
    rot = np.asarray(br.rotate_flavor_to_unified_evolution if qed else br.rotate_flavor_to_evolution)
    want_labels = B.UNI_LABELS if qed else B.EVOL_LABELS
    pidtab = B.UNI_PID if qed else B.EVOL_PID
    dfn = B.uni_def if qed else B.evol_def
    if sorted(labels) != sorted(want_labels) or len(labels) != 14:
        res.fail(f"{sig}/labels", f"labels={labels}")
        return res
    if [pidtab[l] for l in labels] != [int(p) for p in pids]:
        res.fail(f"{sig}/label-pid", f"labels={labels} pids={pids} expected {[pidtab[l] for l in labels]}")
    if rot.shape != (14, 14) or not np.all(rot == np.round(rot)):
        res.fail(f"{sig}/rotation-shape", f"shape={rot.shape}")
        return res
    R = [[F(int(x)) for x in row] for row in rot]
    nbad = 0
    for l, row in zip(labels, R):
        want = B.vec(dfn(l), order)
        if row != want:
            nbad += 1
            res.fail(f"{sig}/row-content", f"row {l}: {B.show(row, order)} expected {B.show(want, order)}")
    if B.rank(R) != 14 or B.inverse(R) is None:
        res.fail(f"{sig}/invertible", f"rank={B.rank(R)}")
    G = B.matmul(R, B.transpose(R))
    off = [(labels[i], labels[j], G[i][j]) for i in range(14) for j in range(i) if G[i][j] != 0]
    if off or any(G[i][i] <= 0 for i in range(14)):
        res.fail(f"{sig}/orthogonal-rows", f"non-orthogonal pairs {off[:4]}")
    inv = B.inverse(R)
    if inv is not None and B.matmul(R, inv) != B.identity(14):
        res.fail(f"{sig}/invertible", "R R^-1 != 1")
    # sector tables
    secmap = br.map_ad_to_unified_evolution if qed else br.map_ad_to_evolution
    full = tuple(br.full_unified_labels if qed else br.full_labels)
    want_sec = B.sectors(qed)
    if set(full) != set(want_sec) or len(full) != len(want_sec):
        res.fail(f"{sig}/sector-labels", f"labels of the basis {sorted(full)} expected {sorted(want_sec)}")
    if set(secmap) != set(want_sec):
        res.fail(f"{sig}/sector-map-keys", f"keys {sorted(secmap)} expected {sorted(want_sec)}")
    for lab, members in want_sec.items():
        got = secmap.get(lab)
        if got is None:
            continue
        if [tuple(m.split(".")) for m in got] != members:
            res.fail(f"{sig}/sector-members", f"sector {lab}: {got} expected {members}")
    if not qed and tuple(br.anomalous_dimensions_basis) != tuple(br.full_labels):
        res.fail(f"{sig}/anomalous_dimensions_basis", f"{br.anomalous_dimensions_basis}")
    # non-singlet sector codes (docstrings of eko.basis_rotation; typed here a second time)
    if not qed:
        got_map = dict(getattr(br, "non_singlet_pids_map", {}))
        if got_map != NS_PIDS:
            res.fail("tables/non_singlet_pids_map", f"non_singlet_pids_map={got_map} expected {NS_PIDS}")
        lab_tabs = {
            "singlet_labels": [(100, 100), (100, 21), (21, 100), (21, 21)],
            "non_singlet_labels": [(10201, 0), (10101, 0), (10200, 0)],
            "singlet_unified_labels": [(a, b) for a in (21, 22, 100, 101) for b in (21, 22, 100, 101)],
            "valence_unified_labels": [(a, b) for a in (10200, 10204) for b in (10200, 10204)],
            "non_singlet_unified_labels": [(10103, 0), (10203, 0), (10102, 0), (10202, 0)],
        }
        for name, want_t in lab_tabs.items():
            got_t = [tuple(int(x) for x in t) for t in getattr(br, name, ())]
            if sorted(got_t) != sorted(want_t) or len(set(got_t)) != len(got_t):
                res.fail(f"tables/sector-label-table/{name}", f"{name}={got_t} expected (any order) {want_t}")
        # the pids reserved for the matching of the heavy quark collide with nothing
        hp, hm = getattr(br, "matching_hplus_pid", None), getattr(br, "matching_hminus_pid", None)
        used = set(B.ALL_PIDS) | set(B.EVOL_PID.values()) | set(B.UNI_PID.values()) | set(NS_PIDS.values()) | {10204, 0}
        if (hp, hm) != (90, 91) or hp == hm or {hp, hm} & used:
            res.fail("tables/matching-pids", f"matching_hplus_pid={hp} matching_hminus_pid={hm}: expected 90, 91 (distinct from {sorted(used)})")
    # intrinsic unified label table: for every nf the 14 labels of the documented intrinsic unified basis
    if qed:
        for nf in NFS:
            try:
                got_l = list(br.intrinsic_unified_evol_labels(nf))
            except Exception as e:  # noqa
                res.fail(f"{sig}/intrinsic-labels/nf={nf}", f"intrinsic_unified_evol_labels({nf}) raised {type(e).__name__}: {e}")
                continue
            want_l = B.intrinsic_labels(nf, True)
            if sorted(got_l) != sorted(want_l) or len(got_l) != 14 or len(set(got_l)) != 14:
                res.fail(
                    f"{sig}/intrinsic-labels/nf={nf}",
                    f"intrinsic_unified_evol_labels({nf})={got_l} expected (any order) {want_l}",
                )
                continue
            # the labelled distributions span the 14 partons (documented content of each label)
            rows_l = [B.vec(B.intrinsic_def(l, nf, True), order) for l in got_l]
            if B.rank(rows_l) != 14:
                res.fail(f"{sig}/intrinsic-labels/nf={nf}", f"labels {got_l}: documented contents have rank {B.rank(rows_l)} < 14")
    # every evolving distribution is the source of exactly one diagonal member
    diag = [a for lab, ms in want_sec.items() if B.is_diagonal(ms) for a, _ in ms]
    assert sorted(diag) == sorted(l for l in want_labels if qed or l != "ph"), diag
    res.outcome = f"tables {_tag(qed)} rows={14 - nbad}/14"
    res.info = {"rows": 14, "sectors": len(want_sec)}
    return res


# ------------------------------------------------------------------------------------- one sector
def _eval_sector(case):
    from eko import basis_rotation as br

    nf, qed, label = case["nf"], case["qed"], tuple(case["label"])
    res = Result()
    order = [int(p) for p in br.flavor_basis_pids]
    members = B.sectors(qed)[label]
    diag = B.is_diagonal(members)
    act = _active_members(members, nf, qed)
    sig = f"ad_projector/{_tag(qed)}"
    P, resid = _get_projector(label, nf, qed, res, sig)
    res.info = {"max_rounding_residue": resid, "active_members": len(act)}
    res.nontrivial = bool(act)
    if P is None:
        res.outcome = "unavailable"
        return res
    ok, kind, msg = _check_sector_map(P, members, nf, qed, order)
    if not ok:
        res.fail(f"{sig}/{kind}", f"sector {label} nf={nf} qed={qed}: {msg}")
    if diag and B.matmul(P, P) != P:
        res.fail(f"{sig}/idempotent", f"sector {label} nf={nf} qed={qed}: P.P != P")
    res.outcome = f"{'diag' if diag else 'offdiag'} members={len(act)} {'ok' if not res.fails else 'bad'}"
    return res


# ------------------------------------------------------------------------------------- family
def _eval_family(case):
    import numpy as np
    from eko import basis_rotation as br

    nf, qed = case["nf"], case["qed"]
    res = Result()
    order = [int(p) for p in br.flavor_basis_pids]
    secs = B.sectors(qed)
    sig = f"ad_projectors/{_tag(qed)}"
    # single-sector maps (their own defects are reported by the sector cases under the same signature)
    single, worst, missing = {}, 0.0, []
    for lab in secs:
        P, r = _get_projector(lab, nf, qed, res, f"ad_projector/{_tag(qed)}")
        worst = max(worst, r)
        if P is None:
            missing.append(lab)
        else:
            single[lab] = P
    tensor = None
    try:
        tensor = np.asarray(br.ad_projectors(nf, qed))
    except Exception as e:  # noqa
        res.fail(f"{sig}/raises:{type(e).__name__}", f"ad_projectors(nf={nf}, qed={qed}) raised {type(e).__name__}: {e}")
    nsl = 0
    if tensor is not None:
        if tensor.ndim != 3 or tensor.shape[1:] != (14, 14):
            res.fail(f"{sig}/shape", f"ad_projectors(nf={nf}, qed={qed}).shape={tensor.shape}")
        elif not np.all(np.isfinite(tensor)):
            res.fail(f"{sig}/non-finite", f"ad_projectors(nf={nf}, qed={qed}) has non-finite entries")
        else:
            nsl = tensor.shape[0]
            try:
                slices = [B.rat_matrix(t)[0] for t in tensor]
            except ValueError as e:
                slices = None
                res.fail(f"{sig}/not-rational", f"ad_projectors(nf={nf}, qed={qed}): {e}")
            if slices is not None:
                # available for every sector of the basis: one slice per sector, each the sector's map
                if len(slices) != len(secs):
                    res.fail(
                        f"{sig}/not-every-sector",
                        f"ad_projectors(nf={nf}, qed={qed}) returns {len(slices)} maps, the basis has {len(secs)} sectors",
                    )
                pool = list(slices)
                for lab, members in secs.items():
                    hit = None
                    for k, S in enumerate(pool):
                        if _check_sector_map(S, members, nf, qed, order)[0]:
                            hit = k
                            break
                    if hit is None:
                        res.fail(
                            f"{sig}/sector-missing",
                            f"ad_projectors(nf={nf}, qed={qed}): no slice is the map of sector {lab} {members}",
                        )
                    else:
                        pool.pop(hit)
    # algebra of the diagonal maps
    dlabs = [lab for lab, ms in secs.items() if B.is_diagonal(ms)]
    have = [lab for lab in dlabs if lab in single]
    for i, a in enumerate(have):
        for b in have[:i]:
            Z = B.matmul(single[a], single[b])
            Z2 = B.matmul(single[b], single[a])
            if any(x != 0 for r in Z for x in r) or any(x != 0 for r in Z2 for x in r):
                res.fail(f"ad_projector/{_tag(qed)}/mutually-orthogonal", f"nf={nf} qed={qed}: P{a}.P{b} != 0")
    complete = None
    if len(have) == len(dlabs):
        tot = [[sum((single[l][i][j] for l in dlabs), F(0)) for j in range(14)] for i in range(14)]
        act = [int(abs(p) <= nf or p == 21 or (qed and p == 22)) for p in order]
        want = [[F(act[i] if i == j else 0) for j in range(14)] for i in range(14)]
        complete = tot == want
        if not complete:
            dd = [(order[i], order[j], str(tot[i][j])) for i in range(14) for j in range(14) if tot[i][j] != want[i][j]]
            res.fail(
                f"ad_projector/{_tag(qed)}/sum-to-identity",
                f"nf={nf} qed={qed}: sum of the diagonal maps differs from the identity on the active partons at {dd[:6]}",
            )
    res.info = {"max_rounding_residue": worst, "slices": nsl, "single_available": len(single)}
    res.nontrivial = True
    res.outcome = f"family slices={nsl}/{len(secs)} single={len(single)}/{len(secs)} complete={complete}"
    return res


def evaluate(case):
    return {"tables": _eval_tables, "sector": _eval_sector, "family": _eval_family}[case["kind"]](case)


def run(ctx):
    cases = [{"kind": "tables", "qed": q} for q in (False, True)]
    for qed in (False, True):
        for nf in NFS:
            cases.append({"kind": "family", "nf": nf, "qed": qed})
            for lab in B.sectors(qed):
                cases.append({"kind": "sector", "nf": nf, "qed": qed, "label": list(lab)})
    ctx.run_cases(cases, evaluate)
    ctx.exhaustive = True
    ctx.rule = (
        "the complete finite domain of the statement in both tiers: 2 rotation tables (+ non-singlet codes, sector "
        "label tuples, matching pids; intrinsic unified labels for nf 3-6); nf 3-6 x (7 QCD + 24 "
        "unified) anomalous-dimension sectors, each map applied to all 14 distributions of the intrinsic basis; "
        "nf 3-6 x {QCD, QED} projector families (one map per sector, idempotence, pairwise products, sum on "
        "the active partons); exact rational comparison; non-trivial = sector with at least one active member "
        "at that nf, every family and table case"
    )
    ctx.assumptions += [
        "reference flavour content typed from doc/source/theory/FlavorSpace.rst and the PDG numbering (vf/ref/c31_bases.py, self-checked)",
        "floats are identified with the unique rational of denominator <= 10^4 within 1e-12 (max residue recorded)",
        "sector maps must annihilate every distribution of the 14-dimensional intrinsic basis other than their sources "
        "(heavy q+-, and the photon in QCD, belong to no sector)",
        "QED, nf=3,5: Sigma_Delta/V_Delta only in the documented nd/nu-weighted reading (the cut-table reading is rejected)",
        "label/pid tables: flavour, evolution and unified tables, sector tables, non_singlet_pids_map (codes typed here), "
        "intrinsic_unified_evol_labels(nf) for nf 3-6 (as a set of 14 distinct labels, each with a documented flavour "
        "content, together spanning the 14 partons), matching pids 90/91 distinct from every other pid",
    ]
